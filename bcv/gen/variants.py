"""Variant-haplotype workloads for C13: edit scripts (SNV / insertion / deletion, padded and unpadded), locations whose
blocks contain or avoid every variant entirely, exhaustive small-scope menus.  Everything is JSON-able and in
coordinates relative to the reference string (the property driver adds the chunk offset).  No BioCantor imports."""

BASES = "ACGT"

# kind -> reference span lengths it may take
KINDS = ("snv", "ins-lpad", "ins-rpad", "del-unpadded", "del-lpad", "del-rpad")
VTYPE = {"snv": "SNV", "ins-lpad": "insertion", "ins-rpad": "insertion", "del-unpadded": "deletion", "del-lpad": "deletion",
         "del-rpad": "deletion"}


def rand_seq(rng, n):
    return "".join(rng.choice(BASES) for _ in range(n))


def other_base(rng, b):
    return rng.choice([c for c in BASES if c != b])


def make_edit(rng, seq, kind, s, span):
    """[s, e, alt, vtype] of the given kind over seq[s:s+span]."""
    e = s + span
    if kind == "snv":
        alt = other_base(rng, seq[s])
    elif kind == "ins-lpad":      # VCF style: anchor base first, then the inserted bases
        alt = seq[s:e] + rand_seq(rng, rng.choice([1, 1, 2, 3, 6]))
    elif kind == "ins-rpad":      # the docstring's example: inserted bases, then the base that was there
        alt = rand_seq(rng, rng.choice([1, 2, 2, 3])) + seq[s:e]
    elif kind == "del-unpadded":
        alt = ""
    elif kind == "del-lpad":
        alt = seq[s]
    elif kind == "del-rpad":
        alt = seq[e - 1]
    else:
        raise ValueError(kind)
    return [s, e, alt, VTYPE[kind]]


def kind_span(rng, kind):
    if kind in ("snv", "ins-lpad", "ins-rpad"):
        return 1
    if kind == "del-unpadded":
        return rng.choice([1, 1, 2, 2, 3, 4])
    return rng.choice([2, 2, 3, 3, 4, 5])


def rand_edits(rng, seq, k):
    """k mutually non-overlapping edits, sorted; biased towards adjacency and towards position 0 / the last base."""
    n = len(seq)
    weights = [("snv", 3), ("ins-lpad", 3), ("ins-rpad", 2), ("del-unpadded", 3), ("del-lpad", 3), ("del-rpad", 1)]
    pool = [kd for kd, w in weights for _ in range(w)]
    while True:
        kinds = [rng.choice(pool) for _ in range(k)]
        spans = [kind_span(rng, kd) for kd in kinds]
        free = n - sum(spans)
        if free >= 0:
            break
    cuts = sorted(rng.randint(0, free) for _ in range(k))
    if rng.random() < 0.25:
        cuts[0] = 0
    if rng.random() < 0.25:
        cuts[-1] = free
    if k > 1 and rng.random() < 0.45:
        j = rng.randrange(1, k)
        cuts[j] = cuts[j - 1]
    cuts.sort()
    edits = []
    used = 0
    for kd, sp, c in zip(kinds, spans, cuts):
        edits.append(make_edit(rng, seq, kd, c + used, sp))
        used += sp
    return edits


def allowed_boundaries(n, edits):
    """Boundaries 0..n that do not fall strictly inside an edit."""
    return [b for b in range(n + 1) if not any(ed[0] < b < ed[1] for ed in edits)]


def rand_blocks(rng, n, edits, nblocks):
    """nblocks non-empty, sorted, non-overlapping blocks whose ends are allowed boundaries (=> each block contains or
    avoids every edit), biased towards ends that coincide with variant ends / sequence ends.  None if impossible."""
    allowed = allowed_boundaries(n, edits)
    hot = sorted({0, n} | {ed[0] for ed in edits} | {ed[1] for ed in edits})
    for _ in range(30):
        pts = set()
        tries = 0
        touching = rng.random() < 0.12
        while len(pts) < 2 * nblocks and tries < 200:
            tries += 1
            pts.add(rng.choice(hot) if rng.random() < 0.45 else rng.choice(allowed))
        if len(pts) < 2 * nblocks:
            continue
        pts = sorted(pts)
        blocks = [[pts[2 * j], pts[2 * j + 1]] for j in range(nblocks)]
        if touching and nblocks > 1:
            j = rng.randrange(1, nblocks)
            if blocks[j - 1][1] < blocks[j][0]:
                blocks[j][0] = blocks[j - 1][1]
        return blocks
    return None


def deleted_blocks(rng, seq, edits):
    """A location lying entirely inside the deleted part of deletions whose alt allele is a literal left pad (or empty):
    one block inside one such deletion, or None."""
    cands, multi = [], []
    for s, e, alt, _ in edits:
        if len(alt) < e - s and seq[s:s + len(alt)] == alt:
            lo, hi = s + len(alt), e
            for a in range(lo, hi):
                for b in range(a + 1, hi + 1):
                    cands.append([[a, b]])
                    # two blocks (touching or apart) inside the same deleted stretch: a multi-block location deleted entirely
                    for c in range(b, hi):
                        multi.append([[a, b], [c, rng.randint(c + 1, hi)]])
    if multi and rng.random() < 0.45:
        return rng.choice(multi)
    return rng.choice(cands) if cands else None


def single_menu(seq, max_del=3, ins_lens=(1, 2)):
    """Every single SNV / padded insertion / deletion over seq with small spans: deterministic alt alleles."""
    n = len(seq)
    nxt = {"A": "C", "C": "G", "G": "T", "T": "A"}
    out = []
    for s in range(n):
        out.append([s, s + 1, nxt[seq[s]], "SNV"])
        for L in ins_lens:
            out.append([s, s + 1, seq[s] + "GTA"[:L], "insertion"])
            out.append([s, s + 1, "TGC"[:L] + seq[s], "insertion"])
        for L in range(1, max_del + 1):
            if s + L > n:
                break
            out.append([s, s + L, "", "deletion"])
            if L >= 2:
                out.append([s, s + L, seq[s], "deletion"])
    return out


def enum_blocks(n, edits, max_blocks):
    """All sorted layouts of 1..max_blocks non-empty, non-touching-or-touching blocks with allowed boundaries."""
    import itertools

    allowed = allowed_boundaries(n, edits)
    for k in range(1, max_blocks + 1):
        for cuts in itertools.combinations(allowed, 2 * k):
            yield [[cuts[2 * j], cuts[2 * j + 1]] for j in range(k)]


def edit_kind(seq, ed):
    """Abstract description of an edit for signatures: (class, length change, pad style)."""
    s, e, alt = ed[0], ed[1], ed[2]
    ld = len(alt) - (e - s)
    if ld == 0:
        return ("sub", 0, "")
    if ld > 0:
        pad = "l" if alt.startswith(seq[s:e]) else ("r" if alt.endswith(seq[s:e]) else "x")
        return ("ins", min(ld, 4), pad)
    pad = "" if not alt else ("l" if seq[s:s + len(alt)] == alt else ("r" if seq[e - len(alt):e] == alt else "x"))
    return ("del", max(ld, -4), pad)
