"""Location workloads: exhaustive small-scope block layouts and seeded random layouts, plus builders that turn a
JSON-able spec into real BioCantor Location objects."""
import itertools

STRANDS = ("+", "-", ".")


def enum_layouts(genome, max_blocks, min_blocks=1):
    """All sorted, mutually non-overlapping block layouts with min..max blocks over [0, genome]; block lengths and
    gaps may be 0.  A layout is a tuple of (start, end)."""
    for k in range(min_blocks, max_blocks + 1):
        for cuts in itertools.combinations_with_replacement(range(genome + 1), 2 * k):
            yield tuple((cuts[2 * j], cuts[2 * j + 1]) for j in range(k))


def count_layouts(genome, max_blocks, min_blocks=1):
    from math import comb

    return sum(comb(genome + 2 * k, 2 * k) for k in range(min_blocks, max_blocks + 1))


def rand_layout(rng, genome, max_blocks, overlap=False, allow_empty_blocks=True):
    """Random layout; with overlap=True blocks may overlap / nest each other."""
    k = rng.randint(1, max_blocks)
    if overlap:
        blocks = []
        for _ in range(k):
            s = rng.randrange(0, genome)
            e = min(genome, s + rng.choice([0, 1, 2, 3, rng.randint(1, max(1, genome // 2))]))
            if e == s and not allow_empty_blocks:
                e = min(genome, s + 1)
            blocks.append((s, e))
        return tuple(sorted(blocks))
    cuts = sorted(rng.randint(0, genome) for _ in range(2 * k))
    # bias towards touching / empty configurations
    if rng.random() < 0.3 and k > 1:
        j = rng.randrange(1, k)
        cuts[2 * j] = cuts[2 * j - 1]
    blocks = tuple((cuts[2 * j], cuts[2 * j + 1]) for j in range(k))
    if not allow_empty_blocks:
        blocks = tuple(b for b in blocks if b[1] > b[0]) or ((cuts[0], min(genome, cuts[0] + 1)),)
    return blocks


def rand_genome(rng, n, alphabet="ACGT"):
    return "".join(rng.choice(alphabet) for _ in range(n))


_STR = None


def strand_of(sym):
    from inscripta.biocantor.location.strand import Strand

    return {"+": Strand.PLUS, "-": Strand.MINUS, ".": Strand.UNSTRANDED}[sym]


def make_parent(mode, genome=None, pid="chr1", alphabet="NT_EXTENDED_GAPPED", seq_type="chromosome"):
    """mode: 'none' | 'id' | 'seq' (parent carrying a sequence)."""
    from inscripta.biocantor.parent import Parent
    from inscripta.biocantor.sequence import Sequence, Alphabet

    if mode == "none":
        return None
    if mode == "id":
        return Parent(id=pid, sequence_type=seq_type)
    if mode == "seq":
        return Parent(id=pid, sequence_type=seq_type, sequence=Sequence(genome, Alphabet[alphabet]))
    raise ValueError(mode)


def build(blocks, strand, parent=None, force_compound=False):
    """Real Location for a layout.  One block -> SingleInterval unless force_compound."""
    from inscripta.biocantor.location.location_impl import SingleInterval, CompoundInterval

    st = strand_of(strand)
    if len(blocks) == 1 and not force_compound:
        return SingleInterval(blocks[0][0], blocks[0][1], st, parent=parent)
    # the constructor takes blocks in any listed order: as generated (ascending), descending, blocks that start together longest first, or
    # rotated - chosen by the content so that replays agree
    blocks = list(blocks)
    v = (sum(b[1] for b in blocks) + len(blocks)) % 4
    if v == 1:
        blocks = blocks[::-1]
    elif v == 2:
        blocks = sorted(blocks, key=lambda b: (b[0], -b[1]))
    elif v == 3:
        blocks = blocks[len(blocks) // 2:] + blocks[:len(blocks) // 2]
    starts, ends = [b[0] for b in blocks], [b[1] for b in blocks]
    if (sum(starts) + len(starts)) % 3 == 0:     # a third of the inputs (chosen by content) hand the coordinates over as tuples
        starts, ends = tuple(starts), tuple(ends)
    return CompoundInterval(starts, ends, st, parent=parent)


def layout_signature(blocks, strand):
    """Abstract shape of a layout: block lengths, gaps, strand (position independent)."""
    bs = sorted(blocks)
    lens = tuple(e - s for s, e in bs)
    gaps = tuple(bs[i + 1][0] - bs[i][1] for i in range(len(bs) - 1))
    return (lens, gaps, strand)


def nontrivial_layout(blocks, strand):
    ne = [b for b in blocks if b[1] > b[0]]
    return len(ne) >= 2 or strand == "-" or len(ne) != len(blocks)
