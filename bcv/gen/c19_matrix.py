"""C19 corruption matrix: for every constructor / derivation a valid argument set and, per argument, each applicable
corruption from the property's list, with the expectation derived from the docstrings and ``raise`` statements of the
source (quoted in ``doc``), never from observed behaviour.

entry = (name, must, doc, thunk)
  must = True   the source documents the check (a ``raise`` guarded by exactly this condition, or the docstring says so):
                the call must raise an exception of the documented families
  must = False  no documented check: the call may return; the returned object is then examined by the structural monitors
                and reported only if it is observably ill-formed
  must = None   the valid baseline: must return a well-formed object (a refusal is a harness error, not a violation)
  must = "legal" an edge request the documentation (and the property) names as legal - zero-length request at the 3' end,
                window == length, an absent UTR, a CDS without a complete codon: it must be *answered* (returned value,
                optionally with a documented post-condition ``post``), a refusal of any kind is a violation
Names are ``<constructor>/<argument>/<corruption>`` and identify the case in replay files.
"""

G40 = "ATGGCCTAAACGTTTGGGCCCATATAGCTAGCTAACGGTA"


def build_matrix():
    from inscripta.biocantor.gene.cds import CDSInterval
    from inscripta.biocantor.gene.cds_frame import CDSFrame, CDSPhase
    from inscripta.biocantor.gene.codon import Codon
    from inscripta.biocantor.gene.collections import AnnotationCollection
    from inscripta.biocantor.gene.feature import FeatureInterval, FeatureIntervalCollection
    from inscripta.biocantor.gene.gene import GeneInterval
    from inscripta.biocantor.gene.transcript import TranscriptInterval
    from inscripta.biocantor.gene.variants import VariantInterval, VariantIntervalCollection
    from inscripta.biocantor.io.models import (AnnotationCollectionModel, FeatureIntervalModel, GeneIntervalModel, ParentModel,
                                               TranscriptIntervalModel, VariantIntervalModel)
    from inscripta.biocantor.io.parser import seq_chunk_to_parent, seq_to_parent
    from inscripta.biocantor.location.location_impl import CompoundInterval, SingleInterval
    from inscripta.biocantor.location.strand import Strand
    from inscripta.biocantor.parent import Parent, SequenceType
    from inscripta.biocantor.sequence import Alphabet, Sequence

    P, M, U = Strand.PLUS, Strand.MINUS, Strand.UNSTRANDED
    Z, O, T = CDSFrame.ZERO, CDSFrame.ONE, CDSFrame.TWO
    out = []

    def E(name, must, doc, thunk, post=None):
        out.append((name, must, doc, thunk, post))

    def chrom():
        return seq_to_parent(G40, seq_id="chr1")

    def chrom_noseq():
        return Parent(id="chr1", sequence_type=SequenceType.CHROMOSOME)

    def chunk(cs=5, ce=30):
        return seq_chunk_to_parent(G40[cs:ce], "chr1", cs, ce)

    def chunk_without_chromosome():
        # a sequence_chunk typed parent with nothing above it
        return Parent(id="chunk", sequence=Sequence(G40[5:30], Alphabet.NT_STRICT, type=SequenceType.SEQUENCE_CHUNK))

    def chunk_without_sequence():
        return Parent(id="chunk", sequence_type=SequenceType.SEQUENCE_CHUNK,
                      parent=Parent(location=SingleInterval(5, 30, P, parent=Parent(id="chr1", sequence_type=SequenceType.CHROMOSOME))))

    # ==========================================================================================================
    # SingleInterval
    # ==========================================================================================================
    si = "location_impl.py SingleInterval.__init__: 'if not 0 <= start <= end: raise InvalidPositionException'"
    E("SingleInterval/-/valid", None, "", lambda: SingleInterval(3, 9, P, chrom()))
    E("SingleInterval/start/start>end", True, si, lambda: SingleInterval(10, 9, P, chrom()))
    E("SingleInterval/start/start>end-no-parent", True, si, lambda: SingleInterval(10, 9, M))
    E("SingleInterval/start/negative", True, si, lambda: SingleInterval(-1, 9, P))
    E("SingleInterval/start,end/negative", True, si, lambda: SingleInterval(-5, -2, U))
    E("SingleInterval/end/beyond-sequence", True, "SingleInterval.__init__: 'end > len(parent_obj.sequence): raise InvalidPositionException'",
      lambda: SingleInterval(3, 41, P, chrom()))
    E("SingleInterval/end/beyond-sequence-empty-interval", True, "same check", lambda: SingleInterval(41, 41, P, chrom()))
    E("SingleInterval/end/huge-without-sequence", False, "docstring: without a Sequence 'some position validation cannot be performed'",
      lambda: SingleInterval(3, 10 ** 9, P, chrom_noseq()))
    E("SingleInterval/parent/wrong-type-int", True, "parent/__init__.py make_parent: 'raise TypeError(\"{} not supported\")'", lambda: SingleInterval(3, 9, P, 5))
    E("SingleInterval/parent/wrong-type-float", True, "make_parent: TypeError for unsupported types (str, Parent, Sequence, Location, Strand are registered)",
      lambda: SingleInterval(3, 9, P, 3.5))

    # ==========================================================================================================
    # CompoundInterval
    # ==========================================================================================================
    ci = "CompoundInterval.__init__: 'if not len(starts) == len(ends) > 0: raise LocationException'"
    E("CompoundInterval/-/valid", None, "", lambda: CompoundInterval([3, 12], [9, 18], P, chrom()))
    E("CompoundInterval/starts/unequal-lengths", True, ci, lambda: CompoundInterval([3], [9, 18], P))
    E("CompoundInterval/ends/unequal-lengths", True, ci, lambda: CompoundInterval([3, 12], [9], M, chrom()))
    E("CompoundInterval/starts,ends/empty-lists", True, ci, lambda: CompoundInterval([], [], P))
    E("CompoundInterval/starts/start>end", True, "CompoundInterval.__init__: 'if start > end: raise InvalidPositionException'",
      lambda: CompoundInterval([3, 20], [9, 18], P))
    E("CompoundInterval/starts/negative", False, "no check in CompoundInterval.__init__ (only SingleInterval documents 0 <= start); may return -> must be well-formed",
      lambda: CompoundInterval([-3, 12], [9, 18], P))
    E("CompoundInterval/starts/negative-with-parent", False, "as above", lambda: CompoundInterval([-3, 12], [9, 18], M, chrom()))
    E("CompoundInterval/starts,ends/negative-block", False, "as above", lambda: CompoundInterval([-8, 12], [-2, 18], P))
    E("CompoundInterval/ends/beyond-sequence", True, "parent.py Parent.__init__: 'location.end > len(sequence): raise InvalidPositionException'",
      lambda: CompoundInterval([3, 12], [9, 41], P, chrom()))
    E("CompoundInterval/ends/beyond-sequence-first-block-nested", True, "same check (end = max block end)", lambda: CompoundInterval([3, 5], [41, 9], M, chrom()))
    E("CompoundInterval/parent/wrong-type-int", True, "make_parent: TypeError", lambda: CompoundInterval([3, 12], [9, 18], P, 7))
    fsi = "CompoundInterval.from_single_intervals: collects errors and 'raise ValueError'"
    E("CompoundInterval.from_single_intervals/intervals/empty-list", True, fsi, lambda: CompoundInterval.from_single_intervals([]))
    E("CompoundInterval.from_single_intervals/intervals/mixed-strands", True, fsi,
      lambda: CompoundInterval.from_single_intervals([SingleInterval(1, 2, P), SingleInterval(4, 6, M)]))
    E("CompoundInterval.from_single_intervals/intervals/mixed-parents", True, fsi,
      lambda: CompoundInterval.from_single_intervals([SingleInterval(1, 2, P, "a"), SingleInterval(4, 6, P, "b")]))
    E("CompoundInterval.from_single_intervals/intervals/parent-and-none", True, fsi,
      lambda: CompoundInterval.from_single_intervals([SingleInterval(1, 2, P, "a"), SingleInterval(4, 6, P)]))

    # ==========================================================================================================
    # Parent
    # ==========================================================================================================
    def seq40(id="chr1", type="chromosome", **kw):
        return Sequence(G40, Alphabet.NT_STRICT, id=id, type=type, **kw)

    uv = "parent.py _unique_value_or_none: 'raise ParentException(\"Multiple distinct non-null values were provided\")'"
    E("Parent/-/valid", None, "", lambda: Parent(id="chr1", sequence_type="chromosome", strand=P, location=SingleInterval(3, 9, P), sequence=seq40()))
    E("Parent/id/mismatch-with-sequence-id", True, uv, lambda: Parent(id="chr2", sequence=seq40()))
    E("Parent/id/mismatch-with-location-parent-id", True, uv, lambda: Parent(id="chr1", location=SingleInterval(3, 9, P, parent="chr2")))
    E("Parent/sequence/id-mismatch-with-location-parent-id", True, uv, lambda: Parent(sequence=seq40(), location=SingleInterval(3, 9, P, parent="chrX")))
    E("Parent/sequence_type/mismatch-with-sequence-type", True, uv, lambda: Parent(sequence_type="plasmid", sequence=seq40()))
    E("Parent/sequence_type/mismatch-with-location-parent-type", True, uv,
      lambda: Parent(sequence_type="plasmid", location=SingleInterval(3, 9, P, parent=Parent(id="x", sequence_type="chromosome"))))
    E("Parent/strand/mismatch-with-location", True, "Parent.__init__: 'strand is not location.strand: raise InvalidStrandException'",
      lambda: Parent(strand=M, location=SingleInterval(3, 9, P)))
    E("Parent/location/beyond-sequence", True, "Parent.__init__: 'location.end > len(sequence): raise InvalidPositionException'",
      lambda: Parent(location=SingleInterval(3, 41, P), sequence=seq40()))
    E("Parent/sequence/longer-than-grandparent-sequence", True, "Parent.__init__: 'raise LocationException(\"Parent ... is longer than parent of parent\")'",
      lambda: Parent(sequence=seq40(), parent=Parent(id="top", sequence=Sequence("ACGT", Alphabet.NT_STRICT))))
    E("Parent/parent/mismatch-with-sequence-parent", True, "Parent.__init__ -> ObjectValidation.require_parents_equal_except_location: MismatchedParentException",
      lambda: Parent(sequence=Sequence("ACGT", Alphabet.NT_STRICT, parent=Parent(id="a")), parent=Parent(id="b")))
    E("Parent/parent/wrong-type-int", True, "make_parent: TypeError", lambda: Parent(id="x", parent=5))

    # ==========================================================================================================
    # Sequence
    # ==========================================================================================================
    E("Sequence/-/valid", None, "", lambda: Sequence(G40, Alphabet.NT_STRICT, id="s", parent=Parent(location=SingleInterval(0, 40, P))))
    va = "sequence.py validate_alphabet: 'raise AlphabetError(\"Invalid sequence for alphabet\")'"
    E("Sequence/data/wrong-alphabet-letter", True, va, lambda: Sequence("ACGTX", Alphabet.NT_STRICT))
    E("Sequence/data/protein-in-nucleotide-alphabet", True, va, lambda: Sequence("MKVLE", Alphabet.NT_EXTENDED_GAPPED))
    E("Sequence/data/gap-in-ungapped-alphabet", True, va, lambda: Sequence("AC-GT", Alphabet.NT_STRICT))
    # one foreign character (white space, control, digit, punctuation, a letter of another alphabet) at the start, in the middle, at the end
    for alpha_name in ("NT_STRICT", "NT_EXTENDED_GAPPED", "AA"):
        body = {"NT_STRICT": "ACGTAC", "NT_EXTENDED_GAPPED": "ACGTNR-AC", "AA": "MKVLEA"}[alpha_name]
        for ch_name, ch in (("newline", "\n"), ("crlf", "\r\n"), ("two-newlines", "\n\n"), ("blank", " "), ("tab", "\t"), ("digit", "7"), ("dot", "."),
                            ("bracket", "]"), ("caret", "^"), ("backslash", "\\"), ("dollar", "$"), ("foreign-letter", "J" if alpha_name != "AA" else "1")):
            for pos_name, data in (("start", ch + body), ("middle", body[:3] + ch + body[3:]), ("end", body + ch)):
                E(f"Sequence/data/foreign-{ch_name}-at-{pos_name}-{alpha_name}", True, va,
                  lambda data=data, alpha_name=alpha_name: Sequence(data, Alphabet[alpha_name]))
    E("Sequence/parent/location-length-mismatch", True, "Sequence.__init__: 'raise MismatchedParentException(\"Sequence length ... does not equal parent location length\")'",
      lambda: Sequence(G40, Alphabet.NT_STRICT, parent=Parent(location=SingleInterval(0, 5, P))))
    E("Sequence/parent/wrong-type-int", True, "make_parent: TypeError", lambda: Sequence("ACGT", Alphabet.NT_STRICT, parent=5))
    E("Sequence.reverse_complement/alphabet/not-nucleotide", True, "reverse_complement: 'raise AlphabetError(\"Cannot reverse complement\")'",
      lambda: Sequence("MKV", Alphabet.AA).reverse_complement())
    E("Sequence.reverse_complement/data/letter-without-complement", True, "reverse_complement: 'except KeyError: raise AlphabetError'",
      lambda: Sequence("ACGX", Alphabet.NT_STRICT, validate_alphabet=False).reverse_complement())
    E("Sequence.append/other/different-alphabet", True, "append: 'raise ValueError(\"Sequences must have same alphabet\")'",
      lambda: Sequence("ACGT", Alphabet.NT_STRICT).append(Sequence("ACGT", Alphabet.NT_EXTENDED)))
    E("Sequence.append/other/different-type", True, "append: 'raise ValueError(\"Sequences must have same type\")'",
      lambda: Sequence("ACGT", Alphabet.NT_STRICT, type="a").append(Sequence("ACGT", Alphabet.NT_STRICT, type="b")))
    E("Sequence.append/other/different-parent", True, "append: 'raise ValueError(\"Sequences must have same parent\")'",
      lambda: Sequence("ACGT", Alphabet.NT_STRICT, parent=Parent(id="a", location=SingleInterval(0, 4, P))).append(
          Sequence("ACGT", Alphabet.NT_STRICT, parent=Parent(id="b", location=SingleInterval(4, 8, P)))))
    E("Sequence.append/other/missing-parent", True, "append: 'if not self.parent.equals_except_location(other.parent): raise ValueError'",
      lambda: Sequence("ACGT", Alphabet.NT_STRICT, parent=Parent(id="a", location=SingleInterval(0, 4, P))).append(Sequence("ACGT", Alphabet.NT_STRICT)))
    E("Sequence.append/other/strand-mismatch-on-parent", True, "append: 'raise ValueError(\"Invalid strands on parent\")'",
      lambda: Sequence("ACGT", Alphabet.NT_STRICT, parent=Parent(id="a", location=SingleInterval(0, 4, P))).append(
          Sequence("ACGT", Alphabet.NT_STRICT, parent=Parent(id="a", location=SingleInterval(4, 8, M)))))
    E("Sequence.append/other/wrong-order-on-parent", True, "append: 'raise ValueError(\"Sequence on plus strand of parent must be to the left\")'",
      lambda: Sequence("ACGT", Alphabet.NT_STRICT, parent=Parent(id="a", location=SingleInterval(4, 8, P))).append(
          Sequence("ACGT", Alphabet.NT_STRICT, parent=Parent(id="a", location=SingleInterval(0, 4, P)))))
    E("Sequence.to_fasta/data/empty", True, "to_fasta: 'raise EmptySequenceFastaError'", lambda: Sequence("", Alphabet.NT_STRICT).to_fasta())

    # ==========================================================================================================
    # Location derivations
    # ==========================================================================================================
    ad = "strand.py assert_directional: 'raise InvalidStrandException' (called first by scan_blocks / extend_relative / scan_windows)"
    E("CompoundInterval.scan_blocks/strand/undirected", True, ad, lambda: list(CompoundInterval([3, 12], [9, 18], U).scan_blocks()))
    E("SingleInterval.extend_relative/strand/undirected", True, ad, lambda: SingleInterval(3, 9, U).extend_relative(1, 1))
    E("CompoundInterval.extend_relative/strand/undirected", True, ad, lambda: CompoundInterval([3, 12], [9, 18], U).extend_relative(1, 1))
    E("SingleInterval.scan_windows/strand/undirected", True, ad, lambda: list(SingleInterval(3, 9, U).scan_windows(2, 1)))
    E("CompoundInterval.scan_windows/strand/undirected", True, ad, lambda: list(CompoundInterval([3, 12], [9, 18], U).scan_windows(2, 1)))
    E("CompoundInterval.extract_sequence/strand/undirected", True, ad, lambda: CompoundInterval([3, 12], [9, 18], U, chrom()).extract_sequence())
    E("SingleInterval.extract_sequence/strand/undirected", True, "SingleInterval.extract_sequence: 'raise InvalidStrandException'",
      lambda: SingleInterval(3, 9, U, chrom()).extract_sequence())
    E("CompoundInterval.relative_to_parent_pos/strand/undirected", True, ad, lambda: CompoundInterval([3, 12], [9, 18], U).relative_to_parent_pos(1))
    E("SingleInterval.relative_to_parent_pos/strand/undirected", True, "relative_to_parent_pos: 'raise InvalidStrandException'",
      lambda: SingleInterval(3, 9, U).relative_to_parent_pos(1))
    E("SingleInterval.parent_to_relative_pos/strand/undirected", True, "parent_to_relative_pos: 'raise InvalidStrandException'",
      lambda: SingleInterval(3, 9, U).parent_to_relative_pos(4))
    E("SingleInterval.relative_interval_to_parent_location/strand/undirected", True, "raise InvalidStrandException",
      lambda: SingleInterval(3, 9, U).relative_interval_to_parent_location(1, 2, P))
    sw = "location.py Location.scan_windows: four 'raise ValueError' guards"
    for cls_name, mk in (("SingleInterval", lambda: SingleInterval(3, 9, P)), ("CompoundInterval", lambda: CompoundInterval([3, 12], [6, 15], M))):
        E(f"{cls_name}.scan_windows/window_size/zero", True, sw, lambda mk=mk: list(mk().scan_windows(0, 1)))
        E(f"{cls_name}.scan_windows/window_size/negative", True, sw, lambda mk=mk: list(mk().scan_windows(-1, 1)))
        E(f"{cls_name}.scan_windows/step_size/zero", True, sw, lambda mk=mk: list(mk().scan_windows(2, 0)))
        E(f"{cls_name}.scan_windows/step_size/negative", True, sw, lambda mk=mk: list(mk().scan_windows(2, -3)))
        E(f"{cls_name}.scan_windows/window_size/longer-than-location", True, sw, lambda mk=mk: list(mk().scan_windows(7, 1)))
        E(f"{cls_name}.scan_windows/start_pos/negative", True, sw, lambda mk=mk: list(mk().scan_windows(2, 1, -1)))
        E(f"{cls_name}.scan_windows/start_pos/equals-length", True, sw, lambda mk=mk: list(mk().scan_windows(1, 1, 6)))
        E(f"{cls_name}.scan_windows/start_pos/window-overruns", True, sw, lambda mk=mk: list(mk().scan_windows(3, 1, 4)))
        E(f"{cls_name}.scan_windows/window_size/equals-length", "legal", "docstring: 'The final window returned is the last one that fits completely': window == length -> one window",
          lambda mk=mk: list(mk().scan_windows(6, 1)), post=lambda r: len(r) == 1 and len(r[0]) == 6)
        E(f"{cls_name}.scan_windows/window_size/last-window-touches-end", "legal", "same docstring: windows 0-4, 2-6 of a 6 bp location",
          lambda mk=mk: list(mk().scan_windows(4, 2)), post=lambda r: len(r) == 2 and all(len(w) == 4 for w in r))
        E(f"{cls_name}.extend_absolute/extend_start/negative", True, "extend_absolute: 'raise ValueError(\"Extension distances must be non-negative\")'",
          lambda mk=mk: mk().extend_absolute(-1, 0))
        E(f"{cls_name}.extend_absolute/extend_end/negative", True, "same", lambda mk=mk: mk().extend_absolute(0, -2))
        E(f"{cls_name}.extend_absolute/extend_start/below-zero", True, "constructs SingleInterval(start - extend_start, ...): InvalidPositionException",
          lambda mk=mk: mk().extend_absolute(4, 0))
        E(f"{cls_name}.shift_position/shift/below-zero", True, "SingleInterval bounds check (CompoundInterval.shift_position forces it: 'force evaluation ... to do bounds checks')",
          lambda mk=mk: mk().shift_position(-4))
        E(f"{cls_name}.relative_to_parent_pos/relative_pos/negative", True, "raise ValueError / InvalidPositionException", lambda mk=mk: mk().relative_to_parent_pos(-1))
        E(f"{cls_name}.relative_to_parent_pos/relative_pos/equals-length", True, "same", lambda mk=mk: mk().relative_to_parent_pos(6))
        E(f"{cls_name}.parent_to_relative_pos/parent_pos/outside", True, "raise InvalidPositionException", lambda mk=mk: mk().parent_to_relative_pos(10))
        E(f"{cls_name}.relative_interval_to_parent_location/relative_start/start>end", True, "raise ValueError / InvalidPositionException",
          lambda mk=mk: mk().relative_interval_to_parent_location(3, 2, P))
        E(f"{cls_name}.relative_interval_to_parent_location/relative_start/negative", True, "same", lambda mk=mk: mk().relative_interval_to_parent_location(-1, 2, P))
        E(f"{cls_name}.relative_interval_to_parent_location/relative_end/beyond-length", True, "same", lambda mk=mk: mk().relative_interval_to_parent_location(0, 7, P))
        E(f"{cls_name}.relative_interval_to_parent_location/relative_start,relative_end/zero-length-at-3p-end", "legal",
          "SingleInterval guard '0 <= relative_start <= relative_end <= len(self)'; CompoundInterval 'zero-width request at the 3' end' branch",
          lambda mk=mk: mk().relative_interval_to_parent_location(6, 6, P), post=lambda r: len(r) == 0)
    E("SingleInterval.shift_position/shift/beyond-sequence", True, "SingleInterval.__init__ end > parent length", lambda: SingleInterval(3, 9, P, chrom()).shift_position(32))
    E("CompoundInterval.shift_position/shift/beyond-sequence", True, "Parent.__init__ location.end > len(sequence)", lambda: CompoundInterval([3, 12], [9, 18], P, chrom()).shift_position(23))
    E("SingleInterval.extend_absolute/extend_end/beyond-sequence", True, "SingleInterval.__init__", lambda: SingleInterval(3, 9, P, chrom()).extend_absolute(0, 32))
    E("CompoundInterval.extend_absolute/extend_end/beyond-sequence", True, "SingleInterval.__init__ of the flank", lambda: CompoundInterval([3, 12], [9, 18], P, chrom()).extend_absolute(0, 23))
    np_ = "object_validation.py require_location_has_parent: 'raise NullParentException'"
    E("SingleInterval.extract_sequence/parent/missing", True, np_, lambda: SingleInterval(3, 9, P).extract_sequence())
    E("CompoundInterval.extract_sequence/parent/missing", True, np_, lambda: CompoundInterval([3, 12], [9, 18], P).extract_sequence())
    E("SingleInterval.extract_sequence/parent/without-sequence", True, "require_location_has_parent_with_sequence: 'raise NullSequenceException'",
      lambda: SingleInterval(3, 9, P, chrom_noseq()).extract_sequence())
    E("CompoundInterval.extract_sequence/parent/without-sequence", True, "same", lambda: CompoundInterval([3, 12], [9, 18], M, chrom_noseq()).extract_sequence())
    mp = "require_parents_equal_except_location: 'raise MismatchedParentException'"
    # parents with the same id whose sequences have the same length and the same ends and differ somewhere in the middle - at several
    # sizes up to chromosome scale (a comparison of sequences is a comparison of every base)
    _twins = {}

    def twin_parents(n):
        if n not in _twins:
            unit = "ACGTTGCAAC"
            a = (unit * (n // len(unit) + 1))[:n]
            b = a[: n // 2] + ("C" if a[n // 2] != "C" else "G") + a[n // 2 + 1:]
            _twins[n] = (Parent(id="chrL", sequence=Sequence(a, Alphabet.NT_STRICT, id="chrL", type="chromosome")),
                         Parent(id="chrL", sequence=Sequence(b, Alphabet.NT_STRICT, id="chrL", type="chromosome")))
        return _twins[n]

    for n in (64, 5000, 70000, (1 << 20) + 7):
        E(f"SingleInterval.union/other/parent-sequence-differs-in-the-middle-{n}", True, mp,
          lambda n=n: SingleInterval(3, 9, P, twin_parents(n)[0]).union(SingleInterval(4, 14, P, twin_parents(n)[1])))
        E(f"SingleInterval.distance_to/other/parent-sequence-differs-in-the-middle-{n}", True, mp,
          lambda n=n: SingleInterval(3, 9, P, twin_parents(n)[0]).distance_to(SingleInterval(20, 24, P, twin_parents(n)[1])))
        E(f"SingleInterval.intersection/other/parent-sequence-differs-in-the-middle-strict-{n}", True, "strict_parent_compare=True: " + mp,
          lambda n=n: SingleInterval(3, 9, P, twin_parents(n)[0]).intersection(SingleInterval(4, 14, P, twin_parents(n)[1]), strict_parent_compare=True))
    for cls_name, mk in (("SingleInterval", lambda p: SingleInterval(3, 9, P, p)), ("CompoundInterval", lambda p: CompoundInterval([3, 12], [6, 15], P, p))):
        other = lambda p: SingleInterval(4, 14, P, p)  # noqa: E731
        E(f"{cls_name}.union/other/parent-id-mismatch", True, mp, lambda mk=mk: mk("chr1").union(other("chr2")))
        E(f"{cls_name}.union/other/parent-missing", True, mp, lambda mk=mk: mk("chr1").union(other(None)))
        E(f"{cls_name}.union/other/strand-mismatch", True, "union: 'raise ValueError(\"Strands do not match\")'", lambda mk=mk: mk(None).union(SingleInterval(4, 14, M)))
        E(f"{cls_name}.union_preserve_overlaps/other/strand-mismatch", True, "_union_preserve_overlaps: 'raise InvalidStrandException'",
          lambda mk=mk: mk(None).union_preserve_overlaps(SingleInterval(4, 14, M)))
        E(f"{cls_name}.union_preserve_overlaps/other/parent-id-mismatch", True, mp, lambda mk=mk: mk("chr1").union_preserve_overlaps(other("chr2")))
        E(f"{cls_name}.distance_to/other/parent-id-mismatch", True, mp, lambda mk=mk: mk("chr1").distance_to(other("chr2")))
        E(f"{cls_name}.distance_to/other/parent-type-mismatch", True, mp,
          lambda mk=mk: mk(Parent(id="chr1", sequence_type="chromosome")).distance_to(other(Parent(id="chr1", sequence_type="plasmid"))))
        E(f"{cls_name}.distance_to/other/parent-missing", True, mp, lambda mk=mk: mk(None).distance_to(other("chr2")))
        for op in ("has_overlap", "intersection", "minus", "contains"):
            E(f"{cls_name}.{op}/other/parent-id-mismatch-strict", True, "strict_parent_compare=True: " + mp,
              lambda mk=mk, op=op: getattr(mk("chr1"), op)(other("chr2"), strict_parent_compare=True))
        E(f"{cls_name}.location_relative_to/other/no-overlap", True, "require_locations_overlap: 'raise LocationOverlapException'",
          lambda mk=mk: mk(None).location_relative_to(SingleInterval(20, 25, P)))
        E(f"{cls_name}.location_relative_to/other/parent-only-on-other", True, "location_relative_to: 'raise NullParentException(\"Parents must be both null or both non-null\")'",
          lambda mk=mk: mk(None).location_relative_to(SingleInterval(4, 14, P, "chr1")))
        E(f"{cls_name}.location_relative_to/other/parent-id-mismatch", True, mp, lambda mk=mk: mk("chr1").location_relative_to(SingleInterval(4, 14, P, "chr2")))
        E(f"{cls_name}.first_ancestor_of_type/parent/missing", True, "location.py: 'raise NoSuchAncestorException(\"Location has no parent\")'",
          lambda mk=mk: mk(None).first_ancestor_of_type("chromosome"))
        E(f"{cls_name}.lift_over_to_first_ancestor_of_type/sequence_type/no-such-ancestor", True, "raise NoSuchAncestorException",
          lambda mk=mk: mk(chrom()).lift_over_to_first_ancestor_of_type("plasmid"))
        E(f"{cls_name}.lift_over_to_sequence/sequence/not-an-ancestor", True, "raise NoSuchAncestorException",
          lambda mk=mk: SingleInterval(3, 9, P, chrom()).lift_over_to_sequence(Sequence("ACGT", Alphabet.NT_STRICT)))
    E("CompoundInterval.lift_over_to_sequence/self/not-contiguous", True, "lift_over_to_sequence: 'raise ValueError(\"Location must be contiguous\")'",
      lambda: CompoundInterval([3, 12], [9, 18], P, chrom()).lift_over_to_sequence(chrom().sequence))
    E("Parent.lift_child_location_to_parent/location/missing", True, "require_parent_has_location: NullParentException",
      lambda: Parent(id="a", parent=Parent(id="b", location=SingleInterval(0, 9, P))).lift_child_location_to_parent())
    E("Parent.lift_child_location_to_parent/parent/missing", True, "require_parent_has_parent: NullParentException",
      lambda: Parent(id="a", location=SingleInterval(0, 9, P)).lift_child_location_to_parent())
    E("Parent.lift_child_location_to_parent/parent/without-location", True, "require_parent_has_parent_with_location: NullParentException",
      lambda: Parent(id="a", location=SingleInterval(0, 9, P), parent=Parent(id="b")).lift_child_location_to_parent())
    E("Parent.first_ancestor_of_type/sequence_type/no-such-ancestor", True, "raise NoSuchAncestorException", lambda: Parent(id="a").first_ancestor_of_type("chromosome"))
    E("Strand.from_symbol/value/unknown", True, "strand.py from_symbol: raise ValueError", lambda: Strand.from_symbol("x"))
    E("Strand.from_int/value/unknown", True, "from_int docstring: 'Raises ValueError for invalid int' (inside enum)", lambda: Strand.from_int(7))
    E("Strand.assert_directional/self/undirected", True, "raise InvalidStrandException", lambda: U.assert_directional())
    E("CDSPhase.from_int/value/unknown", True, "'Raises ValueError for invalid int'", lambda: CDSPhase.from_int(5))
    E("Codon/codon/wrong-length", True, "codon.py: 'raise ValueError(\"Codon not a multiple of 3\")'", lambda: Codon("AT"))
    E("Codon/codon/non-nucleotide", True, "codon.py: 'raise ValueError(\"Unknown, non-nucleotide bases\")'", lambda: Codon("XJZ"))

    # ==========================================================================================================
    # CDSInterval
    # ==========================================================================================================
    def cds(**kw):
        a = dict(cds_starts=[3, 12], cds_ends=[9, 18], strand=P, frames_or_phases=[Z, Z], parent_or_seq_chunk_parent=chrom())
        a.update(kw)
        return CDSInterval(**a)

    E("CDSInterval/-/valid", None, "", lambda: cds())
    E("CDSInterval/-/valid-on-chunk", None, "", lambda: cds(parent_or_seq_chunk_parent=chunk()))
    il = "interval.py initialize_location: 'raise ValidationException(\"Number of interval starts does not match number of interval ends\")'"
    E("CDSInterval/cds_starts/unequal-lengths", True, il, lambda: cds(cds_starts=[3]))
    E("CDSInterval/cds_ends/unequal-lengths", True, il, lambda: cds(cds_ends=[9, 18, 30]))
    E("CDSInterval/cds_starts,cds_ends/empty-lists", True, "initialize_location -> CompoundInterval([], []): LocationException", lambda: cds(cds_starts=[], cds_ends=[], frames_or_phases=[]))
    mf = "cds.py: 'raise MismatchedFrameException(\"Number of frame or phase entries must match number of exons\")'"
    E("CDSInterval/frames_or_phases/fewer-than-blocks", True, mf, lambda: cds(frames_or_phases=[Z]))
    E("CDSInterval/frames_or_phases/more-than-blocks", True, mf, lambda: cds(frames_or_phases=[Z, O, T]))
    E("CDSInterval/frames_or_phases/empty", True, mf, lambda: cds(frames_or_phases=[]))
    E("CDSInterval/frames_or_phases/mixed-frame-then-phase", True, "cds.py: 'raise MismatchedFrameException(\"Cannot mix frame and phase\")'",
      lambda: cds(frames_or_phases=[Z, CDSPhase.ZERO]))
    E("CDSInterval/frames_or_phases/mixed-phase-then-frame", True, "same", lambda: cds(frames_or_phases=[CDSPhase.ZERO, Z]))
    E("CDSInterval/cds_starts,cds_ends/zero-length", True, "cds.py: 'raise InvalidCDSIntervalError(\"Cannot have an empty CDS interval\")'",
      lambda: cds(cds_starts=[3], cds_ends=[3], frames_or_phases=[Z]))
    E("CDSInterval/cds_starts,cds_ends/zero-length-blocks", True, "same", lambda: cds(cds_starts=[3, 12], cds_ends=[3, 12]))
    E("CDSInterval/cds_starts/start>end", True, "location constructors: InvalidPositionException", lambda: cds(cds_starts=[3, 20]))
    E("CDSInterval/cds_starts/start>end-single-block", True, "SingleInterval.__init__", lambda: cds(cds_starts=[10], cds_ends=[9], frames_or_phases=[Z]))
    E("CDSInterval/cds_starts/negative-single-block", True, "SingleInterval.__init__ 0 <= start", lambda: cds(cds_starts=[-3], cds_ends=[9], frames_or_phases=[Z]))
    E("CDSInterval/cds_starts/negative", False, "multi-block path builds a CompoundInterval (no documented check)", lambda: cds(cds_starts=[-3, 12]))
    E("CDSInterval/cds_starts/negative-no-parent", False, "same", lambda: cds(cds_starts=[-3, 12], parent_or_seq_chunk_parent=None))
    E("CDSInterval/cds_ends/beyond-sequence", True, "Parent.__init__ location.end > len(sequence)", lambda: cds(cds_ends=[9, 41]))
    E("CDSInterval/cds_ends/beyond-sequence-single-block", True, "SingleInterval.__init__", lambda: cds(cds_starts=[3], cds_ends=[41], frames_or_phases=[Z]))
    nsa = "interval.py liftover_location_to_seq_chunk_parent docstring 'Raises: NoSuchAncestorException / NullSequenceException' and raise statements"
    E("CDSInterval/parent_or_seq_chunk_parent/chunk-without-chromosome", True, nsa, lambda: cds(parent_or_seq_chunk_parent=chunk_without_chromosome()))
    E("CDSInterval/parent_or_seq_chunk_parent/chunk-without-sequence", True, nsa, lambda: cds(parent_or_seq_chunk_parent=chunk_without_sequence()))
    E("CDSInterval/qualifiers/not-a-dict", True, "_import_qualifiers_from_list: 'raise ValidationException(\"Qualifiers must be a dictionary\")'", lambda: cds(qualifiers=["a"]))
    E("CDSInterval/qualifiers/values-not-lists", True, "'raise ValidationException(\"Qualifier values must be lists\")'", lambda: cds(qualifiers={"a": "b"}))
    E("CDSInterval.from_location/location/chunk-relative", True, "from_location: 'raise NoSuchAncestorException(\"Cannot call from_location with a chunk-relative location\")'",
      lambda: CDSInterval.from_location(SingleInterval(2, 8, P, chunk()), [Z]))
    E("CDSInterval.from_chunk_relative_location/location/not-chunk-relative", True, "'raise NoSuchAncestorException(\"Must have a sequence chunk in the parent hierarchy\")'",
      lambda: CDSInterval.from_chunk_relative_location(SingleInterval(2, 8, P, chrom()), [Z]))
    E("CDSInterval.from_location/cds_frames/fewer-than-blocks", True, mf, lambda: CDSInterval.from_location(CompoundInterval([3, 12], [9, 18], P), [Z]))

    # ==========================================================================================================
    # TranscriptInterval
    # ==========================================================================================================
    def tx(**kw):
        a = dict(exon_starts=[2, 12], exon_ends=[10, 24], strand=P, cds_starts=[4, 12], cds_ends=[10, 20], cds_frames=[Z, Z],
                 transcript_id="t1", parent_or_seq_chunk_parent=chrom())
        a.update(kw)
        return TranscriptInterval(**a)

    ic = "transcript.py __init__: raise InvalidCDSIntervalError(...)"
    E("TranscriptInterval/-/valid", None, "", lambda: tx())
    E("TranscriptInterval/-/valid-noncoding-on-chunk", None, "", lambda: tx(cds_starts=None, cds_ends=None, cds_frames=None, parent_or_seq_chunk_parent=chunk()))
    E("TranscriptInterval/exon_starts/unequal-lengths", True, il, lambda: tx(exon_starts=[2]))
    E("TranscriptInterval/exon_ends/unequal-lengths", True, il, lambda: tx(exon_ends=[10]))
    E("TranscriptInterval/exon_starts,exon_ends/empty-lists", True, "CompoundInterval([], []): LocationException", lambda: tx(exon_starts=[], exon_ends=[], cds_starts=None, cds_ends=None, cds_frames=None))
    E("TranscriptInterval/exon_starts/start>end", True, "location constructors", lambda: tx(exon_starts=[2, 30]))
    E("TranscriptInterval/exon_starts/negative-single-block", True, "SingleInterval.__init__", lambda: tx(exon_starts=[-2], exon_ends=[24], cds_starts=None, cds_ends=None, cds_frames=None))
    E("TranscriptInterval/exon_starts/negative", False, "multi-block path: no documented check", lambda: tx(exon_starts=[-2, 12], cds_starts=None, cds_ends=None, cds_frames=None))
    E("TranscriptInterval/exon_ends/beyond-sequence", True, "Parent.__init__", lambda: tx(exon_ends=[10, 44]))
    E("TranscriptInterval/cds_starts/start-without-end", True, ic + " 'If CDS start is defined, CDS end must be defined'", lambda: tx(cds_ends=None))
    E("TranscriptInterval/cds_ends/end-without-start", True, ic + " 'If CDS end is defined, CDS start must be defined'", lambda: tx(cds_starts=None))
    E("TranscriptInterval/cds_starts/unequal-lengths", True, ic, lambda: tx(cds_starts=[4]))
    E("TranscriptInterval/cds_starts/before-first-exon", True, ic + " 'CDS start must be greater than or equal to exon start'", lambda: tx(cds_starts=[1, 12]))
    E("TranscriptInterval/cds_ends/beyond-last-exon", True, ic + " 'CDS end must be less than or equal to than exon end'", lambda: tx(cds_ends=[10, 25]))
    E("TranscriptInterval/cds_frames/missing", True, ic + " 'If CDS interval is defined, CDS frames must be defined'", lambda: tx(cds_frames=None))
    E("TranscriptInterval/cds_frames/fewer-than-blocks", True, ic + " 'Number of CDS frames must match'", lambda: tx(cds_frames=[Z]))
    E("TranscriptInterval/cds_frames/more-than-blocks", True, ic, lambda: tx(cds_frames=[Z, Z, Z]))
    E("TranscriptInterval/cds_frames/mixed-frame-phase", True, "CDSInterval: MismatchedFrameException", lambda: tx(cds_frames=[Z, CDSPhase.ONE]))
    E("TranscriptInterval/cds_starts,cds_ends/zero-length", True, "CDSInterval: InvalidCDSIntervalError", lambda: tx(cds_starts=[4], cds_ends=[4], cds_frames=[Z]))
    E("TranscriptInterval/cds_starts/start>end", True, "location constructors", lambda: tx(cds_starts=[11, 12]))
    E("TranscriptInterval/cds_starts,cds_ends/empty-lists", True, "cds_starts[0] on an empty list is not guarded; the CDS constructor refuses [] (LocationException) - a refusal is due",
      lambda: tx(cds_starts=[], cds_ends=[], cds_frames=[]))
    E("TranscriptInterval/parent_or_seq_chunk_parent/chunk-without-chromosome", True, nsa, lambda: tx(parent_or_seq_chunk_parent=chunk_without_chromosome()))
    E("TranscriptInterval/parent_or_seq_chunk_parent/chunk-without-sequence", True, nsa, lambda: tx(parent_or_seq_chunk_parent=chunk_without_sequence()))
    E("TranscriptInterval/qualifiers/not-a-dict", True, "ValidationException", lambda: tx(qualifiers=[1, 2]))
    E("TranscriptInterval/qualifiers/values-not-lists", True, "ValidationException", lambda: tx(qualifiers={"a": {"b"}}))
    E("TranscriptInterval.from_location/location/chunk-relative", True, "raise NoSuchAncestorException", lambda: TranscriptInterval.from_location(SingleInterval(2, 8, P, chunk())))
    E("TranscriptInterval.from_chunk_relative_location/location/not-chunk-relative", True, "raise NoSuchAncestorException",
      lambda: TranscriptInterval.from_chunk_relative_location(SingleInterval(2, 8, P, chrom())))
    E("TranscriptInterval.from_chunk_relative_location/cds/not-chunk-relative", True, "raise NoSuchAncestorException",
      lambda: TranscriptInterval.from_chunk_relative_location(SingleInterval(2, 8, P, chunk()), cds=cds(cds_starts=[8], cds_ends=[12], frames_or_phases=[Z])))
    E("TranscriptInterval.intersect/location/disjoint", True, "intersect: 'raise EmptyLocationException(\"Can't intersect disjoint intervals\")'",
      lambda: tx().intersect(SingleInterval(30, 35, P, chrom())))
    nc = "raise NoncodingTranscriptError"
    utr = "get_5p_interval / get_3p_interval docstring: 'Return the UTR as a Location, if it exists' - an absent UTR is an empty location"
    E("TranscriptInterval.get_3p_interval/cds/no-3p-utr-multi-exon", "legal", utr, lambda: tx(cds_ends=[10, 24]).get_3p_interval(), post=lambda r: len(r) == 0)
    E("TranscriptInterval.get_3p_interval/cds/no-3p-utr-minus", "legal", utr, lambda: tx(strand=M, cds_starts=[2, 12]).get_3p_interval(), post=lambda r: len(r) == 0)
    E("TranscriptInterval.get_5p_interval/cds/no-5p-utr-multi-exon", "legal", utr, lambda: tx(cds_starts=[2, 12]).get_5p_interval(), post=lambda r: len(r) == 0)
    E("TranscriptInterval.get_5p_interval/cds/no-5p-utr-minus", "legal", utr, lambda: tx(strand=M, cds_ends=[10, 24]).get_5p_interval(), post=lambda r: len(r) == 0)
    E("TranscriptInterval.get_3p_interval/cds/full-length", "legal", utr, lambda: tx(cds_starts=[2, 12], cds_ends=[10, 24]).get_3p_interval(), post=lambda r: len(r) == 0)
    E("TranscriptInterval.get_3p_interval/cds/with-utr-on-chunk", "legal", utr, lambda: tx(parent_or_seq_chunk_parent=chunk(0, 40)).get_3p_interval(), post=lambda r: len(r) == 4)
    nocodon = "cds.py docstrings: 'Any leading or trailing bases that ... cannot form a full codon are removed/excluded' - a CDS without a complete codon has zero codons"
    E("CDSInterval.num_codons/cds/no-complete-codon", "legal", nocodon, lambda: cds(cds_starts=[4], cds_ends=[6], frames_or_phases=[Z]).num_codons, post=lambda r: r == 0)
    E("CDSInterval.extract_sequence/cds/no-complete-codon", "legal", nocodon, lambda: cds(cds_starts=[4], cds_ends=[6], frames_or_phases=[Z]).extract_sequence(), post=lambda r: str(r) == "")
    E("CDSInterval.translate/cds/no-complete-codon", "legal", nocodon, lambda: cds(cds_starts=[4], cds_ends=[8], frames_or_phases=[T]).translate(), post=lambda r: str(r) == "")
    E("CDSInterval.scan_codons/cds/no-complete-codon", "legal", nocodon, lambda: list(cds(cds_starts=[4, 12], cds_ends=[5, 13], frames_or_phases=[Z, O]).scan_codons()), post=lambda r: r == [])
    for m in ("get_5p_interval", "get_3p_interval", "get_cds_sequence", "get_protein_sequence"):
        E(f"TranscriptInterval.{m}/cds/noncoding", True, nc, lambda m=m: getattr(tx(cds_starts=None, cds_ends=None, cds_frames=None), m)())
    for m in ("cds_start", "cds_end", "cds_location", "has_in_frame_stop", "chunk_relative_cds_blocks"):
        E(f"TranscriptInterval.{m}/cds/noncoding", True, nc, lambda m=m: getattr(tx(cds_starts=None, cds_ends=None, cds_frames=None), m))
    E("TranscriptInterval.cds_pos_to_sequence/cds/noncoding", True, nc, lambda: tx(cds_starts=None, cds_ends=None, cds_frames=None).cds_pos_to_sequence(0))
    E("TranscriptInterval.get_spliced_sequence/parent/missing", True, np_, lambda: tx(parent_or_seq_chunk_parent=None).get_spliced_sequence())
    E("TranscriptInterval.get_spliced_sequence/parent/without-sequence", True, "NullSequenceException", lambda: tx(parent_or_seq_chunk_parent=chrom_noseq()).get_spliced_sequence())
    E("TranscriptInterval.get_reference_sequence/parent/missing", True, np_, lambda: tx(parent_or_seq_chunk_parent=None).get_reference_sequence())
    E("TranscriptInterval.get_protein_sequence/parent/missing", True, np_, lambda: tx(parent_or_seq_chunk_parent=None).get_protein_sequence())
    E("TranscriptInterval.to_gff/sequence_name/missing", True, "to_gff docstring 'Raises: GFF3MissingSequenceNameError'", lambda: list(tx().to_gff()))
    E("TranscriptInterval.to_gff/chromosome_relative_coordinates/no-chunk-ancestor", True, "to_gff docstring 'Raises: NoSuchAncestorException'",
      lambda: list(tx(sequence_name="chr1").to_gff(chromosome_relative_coordinates=False)))
    E("TranscriptInterval.liftover_to_parent_or_seq_chunk_parent/parent/other-chromosome", True, mp,
      lambda: tx().liftover_to_parent_or_seq_chunk_parent(seq_to_parent(G40[::-1], seq_id="chrOther")))

    # ==========================================================================================================
    # FeatureInterval
    # ==========================================================================================================
    def feat(**kw):
        a = dict(interval_starts=[2, 12], interval_ends=[10, 24], strand=M, feature_name="f1", feature_types=["promoter"], parent_or_seq_chunk_parent=chrom())
        a.update(kw)
        return FeatureInterval(**a)

    E("FeatureInterval/-/valid", None, "", lambda: feat())
    E("FeatureInterval/interval_starts/unequal-lengths", True, il, lambda: feat(interval_starts=[2]))
    E("FeatureInterval/interval_ends/unequal-lengths", True, il, lambda: feat(interval_ends=[10, 24, 30]))
    E("FeatureInterval/interval_starts,interval_ends/empty-lists", True, "LocationException", lambda: feat(interval_starts=[], interval_ends=[]))
    E("FeatureInterval/interval_starts/start>end", True, "location constructors", lambda: feat(interval_starts=[11, 12]))
    E("FeatureInterval/interval_starts/negative-single-block", True, "SingleInterval.__init__", lambda: feat(interval_starts=[-1], interval_ends=[5]))
    E("FeatureInterval/interval_starts/negative", False, "multi-block path: no documented check", lambda: feat(interval_starts=[-2, 12]))
    E("FeatureInterval/interval_ends/beyond-sequence", True, "Parent.__init__", lambda: feat(interval_ends=[10, 41]))
    E("FeatureInterval/interval_ends/beyond-sequence-on-chunk-parent", False, "no bound is known for the chromosome of a chunk parent; may return", lambda: feat(interval_ends=[10, 400], parent_or_seq_chunk_parent=chunk()))
    E("FeatureInterval/parent_or_seq_chunk_parent/chunk-without-chromosome", True, nsa, lambda: feat(parent_or_seq_chunk_parent=chunk_without_chromosome()))
    E("FeatureInterval/parent_or_seq_chunk_parent/chunk-without-sequence", True, nsa, lambda: feat(parent_or_seq_chunk_parent=chunk_without_sequence()))
    E("FeatureInterval/qualifiers/not-a-dict", True, "ValidationException", lambda: feat(qualifiers="x"))
    E("FeatureInterval/qualifiers/values-not-lists", True, "ValidationException", lambda: feat(qualifiers={"a": 1}))
    E("FeatureInterval.from_location/location/chunk-relative", True, "raise NoSuchAncestorException", lambda: FeatureInterval.from_location(SingleInterval(2, 8, P, chunk())))
    E("FeatureInterval.from_chunk_relative_location/location/not-chunk-relative", True, "raise NoSuchAncestorException",
      lambda: FeatureInterval.from_chunk_relative_location(SingleInterval(2, 8, P)))
    E("FeatureInterval.intersect/location/disjoint", True, "raise EmptyLocationException", lambda: feat().intersect(SingleInterval(30, 35, P, chrom())))
    E("FeatureInterval.cds_start/-/not-transcribed", True, nc, lambda: feat().cds_start)
    E("FeatureInterval.is_coding/-/not-transcribed", True, nc, lambda: feat().is_coding)
    E("FeatureInterval.to_gff/sequence_name/missing", True, "GFF3MissingSequenceNameError", lambda: list(feat().to_gff()))
    E("FeatureInterval.to_bed12/-/valid", None, "", lambda: feat(sequence_name="chr1").to_bed12())

    # ==========================================================================================================
    # GeneInterval / FeatureIntervalCollection
    # ==========================================================================================================
    def gene(txs=None, **kw):
        a = dict(transcripts=txs if txs is not None else [tx(), tx(transcript_id="t2", exon_starts=[0, 12])], gene_id="g1", parent_or_seq_chunk_parent=chrom())
        a.update(kw)
        return GeneInterval(**a)

    E("GeneInterval/-/valid", None, "", lambda: gene())
    E("GeneInterval/transcripts/empty-list", True, "gene.py: 'raise InvalidAnnotationError(\"GeneInterval must have transcripts\")'", lambda: gene([]))
    E("GeneInterval/transcripts/none", True, "same", lambda: gene(transcripts=None))
    E("GeneInterval/transcripts/duplicate-child", True, "gene.py: 'raise DuplicateTranscriptError'", lambda: gene([tx(), tx()]))
    E("GeneInterval/transcripts/same-object-twice", True, "same", lambda: (lambda t: gene([t, t]))(tx()))
    E("GeneInterval/transcripts/two-primary", True, "interval.py _find_primary_feature: 'raise ValidationException(\"Multiple primary features/transcripts found\")'",
      lambda: gene([tx(is_primary_tx=True), tx(transcript_id="t2", is_primary_tx=True)]))
    E("GeneInterval/qualifiers/not-a-dict", True, "ValidationException", lambda: gene(qualifiers=[1]))
    E("GeneInterval/parent_or_seq_chunk_parent/chunk-without-chromosome", True, nsa,
      lambda: gene([tx(parent_or_seq_chunk_parent=None)], parent_or_seq_chunk_parent=chunk_without_chromosome()))
    E("GeneInterval.get_merged_cds/transcripts/all-noncoding", True, "raise NoncodingTranscriptError", lambda: gene([tx(cds_starts=None, cds_ends=None, cds_frames=None)]).get_merged_cds())
    E("GeneInterval.to_gff/sequence_name/missing", True, "GFF3MissingSequenceNameError", lambda: list(gene().to_gff()))

    def fcoll(fs=None, **kw):
        a = dict(feature_intervals=fs if fs is not None else [feat(), feat(feature_name="f2", interval_starts=[0, 12])], feature_collection_name="fc",
                 parent_or_seq_chunk_parent=chrom())
        a.update(kw)
        return FeatureIntervalCollection(**a)

    E("FeatureIntervalCollection/-/valid", None, "", lambda: fcoll())
    E("FeatureIntervalCollection/feature_intervals/empty-list", True, "feature.py: 'raise InvalidAnnotationError(\"Must have at least one feature interval.\")'", lambda: fcoll([]))
    E("FeatureIntervalCollection/feature_intervals/none", True, "same", lambda: fcoll(feature_intervals=None))
    E("FeatureIntervalCollection/feature_intervals/duplicate-child", True, "feature.py: 'raise DuplicateFeatureError'", lambda: fcoll([feat(), feat()]))
    E("FeatureIntervalCollection/feature_intervals/two-primary", True, "_find_primary_feature: ValidationException",
      lambda: fcoll([feat(is_primary_feature=True), feat(feature_name="f2", is_primary_feature=True)]))
    E("FeatureIntervalCollection/qualifiers/values-not-lists", True, "ValidationException", lambda: fcoll(qualifiers={"a": "b"}))
    E("FeatureIntervalCollection.to_gff/sequence_name/missing", True, "GFF3MissingSequenceNameError", lambda: list(fcoll().to_gff()))

    # ==========================================================================================================
    # VariantInterval / VariantIntervalCollection
    # ==========================================================================================================
    def var(s=5, e=6, alt="T", vt="SNV", **kw):
        a = dict(parent_or_seq_chunk_parent=chrom())
        a.update(kw)
        return VariantInterval(s, e, alt, vt, **a)

    E("VariantInterval/-/valid", None, "", lambda: var())
    E("VariantInterval/start,end/zero-length", True, "variants.py: 'if start == end: raise EmptyLocationException'", lambda: var(5, 5))
    E("VariantInterval/start/start>end", True, "SingleInterval.__init__", lambda: var(7, 6))
    E("VariantInterval/start/negative", True, "SingleInterval.__init__", lambda: var(-1, 2))
    E("VariantInterval/end/beyond-sequence", True, "SingleInterval.__init__ end > parent length", lambda: var(39, 42, "", "deletion"))
    E("VariantInterval/sequence/wrong-alphabet", True, "Sequence(sequence, NT_STRICT_UNKNOWN): AlphabetError", lambda: var(alt="TXQ"))
    E("VariantInterval/sequence/extended-letter-not-in-alphabet", True, "same (alphabet is ATGCN)", lambda: var(alt="R"))
    E("VariantInterval/parent_or_seq_chunk_parent/chunk-without-chromosome", True, nsa, lambda: var(parent_or_seq_chunk_parent=chunk_without_chromosome()))
    E("VariantInterval/qualifiers/not-a-dict", True, "ValidationException", lambda: var(qualifiers=("a",)))
    E("VariantInterval.alternative_genomic_sequence/parent/missing", True, "raise NullSequenceException", lambda: var(parent_or_seq_chunk_parent=None).alternative_genomic_sequence)
    E("VariantInterval.parent_with_alternative_sequence/parent/without-sequence", True, "raise NullSequenceException",
      lambda: var(parent_or_seq_chunk_parent=chrom_noseq()).parent_with_alternative_sequence)

    def vcoll(vs=None, **kw):
        a = dict(variant_intervals=vs if vs is not None else [var(), var(10, 13, "A", "deletion")], variant_collection_name="vc", parent_or_seq_chunk_parent=chrom())
        a.update(kw)
        return VariantIntervalCollection(**a)

    E("VariantIntervalCollection/-/valid", None, "", lambda: vcoll())
    ov = "variants.py: 'raise LocationOverlapException(\"VariantInterval within a VariantIntervalCollection must not overlap\")'"
    E("VariantIntervalCollection/variant_intervals/overlapping", True, ov, lambda: vcoll([var(5, 9, "A", "deletion"), var(8, 9, "T", "SNV")]))
    E("VariantIntervalCollection/variant_intervals/nested", True, ov, lambda: vcoll([var(5, 12, "A", "deletion"), var(8, 9, "T", "SNV")]))
    E("VariantIntervalCollection/variant_intervals/duplicate-child", True, ov + " (identical variants overlap)", lambda: vcoll([var(), var()]))
    E("VariantIntervalCollection/variant_intervals/overlapping-without-parent", True, ov,
      lambda: vcoll([var(5, 9, "A", "deletion", parent_or_seq_chunk_parent=None), var(8, 9, "T", "SNV", parent_or_seq_chunk_parent=None)], parent_or_seq_chunk_parent=None))
    E("VariantIntervalCollection/variant_intervals/empty-list", False, "no documented check for an empty list; whatever happens must not be an internal error", lambda: vcoll([]))
    E("VariantIntervalCollection/qualifiers/not-a-dict", True, "ValidationException", lambda: vcoll(qualifiers=[1]))
    E("VariantIntervalCollection.to_gff/-/unsupported", True, "raise NotImplementedError", lambda: list(vcoll().to_gff()))
    E("VariantIntervalCollection.alternative_genomic_sequence/parent/missing", True, "raise NullSequenceException",
      lambda: vcoll([var(parent_or_seq_chunk_parent=None)], parent_or_seq_chunk_parent=None).alternative_genomic_sequence)

    # ==========================================================================================================
    # AnnotationCollection
    # ==========================================================================================================
    def coll(**kw):
        a = dict(genes=[gene()], feature_collections=[fcoll()], name="c", sequence_name="chr1", parent_or_seq_chunk_parent=chrom())
        a.update(kw)
        return AnnotationCollection(**a)

    E("AnnotationCollection/-/valid", None, "", lambda: coll())
    E("AnnotationCollection/-/valid-empty-bounded", None, "docstring: 'An AnnotationCollection can be empty'", lambda: AnnotationCollection(start=2, end=20))
    E("AnnotationCollection/-/valid-with-variants", None, "", lambda: coll(variant_collections=[vcoll()]))
    E("AnnotationCollection/start/start-without-end", True, "collections.py: 'raise InvalidAnnotationError(\"If start is provided, end must also be provided.\")'", lambda: coll(start=0))
    E("AnnotationCollection/end/end-without-start", True, "'raise InvalidAnnotationError(\"If end is provided, start must also be provided.\")'", lambda: coll(end=30))
    E("AnnotationCollection/start/start>end", True, "_initialize_location -> SingleInterval.__init__", lambda: coll(start=30, end=2))
    E("AnnotationCollection/start/negative", True, "SingleInterval.__init__", lambda: coll(start=-1, end=30))
    E("AnnotationCollection/end/beyond-sequence", True, "SingleInterval.__init__ end > parent length", lambda: coll(start=0, end=41))
    E("AnnotationCollection/genes/duplicate-child", False, "duplicates are detected lazily (hierarchical_children_guids: InvalidAnnotationError), not documented for the constructor",
      lambda: (lambda g: coll(genes=[g, g]))(gene()))
    E("AnnotationCollection.hierarchical_children_guids/genes/duplicate-child", True, "'raise InvalidAnnotationError(\"Found multiple interval collections with the same GUID\")'",
      lambda: (lambda g: coll(genes=[g, g]))(gene()).hierarchical_children_guids)
    E("AnnotationCollection.interval_guids_to_collections/genes/duplicate-grandchild", True, "'raise InvalidAnnotationError(\"Found multiple child intervals with the same GUID\")'",
      lambda: coll(genes=[gene(), gene(gene_id="g2")]).interval_guids_to_collections)
    E("AnnotationCollection/qualifiers/not-a-dict", True, "ValidationException", lambda: coll(qualifiers=[1]))
    E("AnnotationCollection/parent_or_seq_chunk_parent/chunk-without-chromosome", True, nsa,
      lambda: AnnotationCollection(start=6, end=20, parent_or_seq_chunk_parent=chunk_without_chromosome()))
    iq = "query_by_position docstring 'Raises: InvalidQueryError' and its five raise statements"
    E("AnnotationCollection.query_by_position/start/negative", True, iq, lambda: coll().query_by_position(-1, 10))
    E("AnnotationCollection.query_by_position/start/start>end", True, iq, lambda: coll().query_by_position(10, 5))
    E("AnnotationCollection.query_by_position/start/before-bounds", True, iq, lambda: coll(start=5, end=30).query_by_position(2, 10))
    E("AnnotationCollection.query_by_position/end/beyond-bounds", True, iq, lambda: coll().query_by_position(2, 41))
    E("AnnotationCollection.query_by_position/end/beyond-bounds-without-parent", True, iq,
      lambda: coll(genes=[gene([tx(parent_or_seq_chunk_parent=None)], parent_or_seq_chunk_parent=None)], feature_collections=None, start=1, end=30,
                   parent_or_seq_chunk_parent=None).query_by_position(2, 31, completely_within=False))
    E("AnnotationCollection.query_by_position/start/before-bounds-without-parent", True, iq,
      lambda: coll(genes=[gene([tx(parent_or_seq_chunk_parent=None)], parent_or_seq_chunk_parent=None)], feature_collections=None, start=1, end=30,
                   parent_or_seq_chunk_parent=None).query_by_position(0, 20, completely_within=False))
    E("AnnotationCollection.query_by_position/start,end/zero-length", True, iq, lambda: coll().query_by_position(5, 5))
    E("AnnotationCollection.get_children_by_type/child_type/unknown", True, "'raise InvalidQueryError(\"Cannot get children of type\")'", lambda: coll().get_children_by_type("exon"))
    E("AnnotationCollection.to_dict/export_parent/chunk-relative", True, "_parent_to_dict docstring 'Raises: NotImplementedError'",
      lambda: coll(parent_or_seq_chunk_parent=chunk(0, 40)).to_dict(chromosome_relative_coordinates=False, export_parent=True))

    # ==========================================================================================================
    # "falsy but not None" operands: wherever a constructor validates against an optional argument, an operand that is
    # present but falsy (empty Sequence, zero-length Location, empty string, 0, empty list) must go through the same
    # documented check as any other present operand
    # ==========================================================================================================
    ii = "models.py ParentModel.to_parent: raise InvalidInputError"

    def empty_seq(**kw):
        return Sequence("", Alphabet.NT_STRICT, **kw)

    eb = "SingleInterval.__init__ 'end > len(parent_obj.sequence): raise InvalidPositionException' / Parent.__init__ 'location.end > len(sequence): raise InvalidPositionException' (a sequence of length 0 is a sequence)"
    empty_parents = (("parent-with-empty-sequence", lambda: Parent(sequence=empty_seq())),
                     ("named-parent-with-empty-sequence", lambda: Parent(id="chr1", sequence_type="chromosome", sequence=empty_seq())),
                     ("empty-chromosome", lambda: seq_to_parent("", seq_id="chr1")),
                     ("empty-sequence-as-parent", lambda: empty_seq()))      # make_parent registers Sequence as ParentInputType
    for lab, mkp in empty_parents:
        E(f"SingleInterval/parent/{lab}", True, eb, lambda mkp=mkp: SingleInterval(3, 9, P, mkp()))
        E(f"SingleInterval/parent/{lab}-zero-length-interval-beyond", True, eb, lambda mkp=mkp: SingleInterval(5, 5, M, mkp()))
        E(f"SingleInterval/parent/{lab}-zero-length-interval-at-0", None, "0 <= 0 <= 0 <= len(sequence): fits", lambda mkp=mkp: SingleInterval(0, 0, P, mkp()))
        E(f"CompoundInterval/parent/{lab}", True, eb, lambda mkp=mkp: CompoundInterval([0, 5], [3, 8], P, mkp()))
        E(f"CompoundInterval/parent/{lab}-adjacent-blocks-minus", True, eb, lambda mkp=mkp: CompoundInterval([1, 2], [2, 4], M, mkp()))
        E(f"CompoundInterval/parent/{lab}-empty-blocks-at-0", None, "nothing covered: fits", lambda mkp=mkp: CompoundInterval([0, 0], [0, 0], P, mkp()))
        E(f"SingleInterval.reset_parent/new_parent/{lab}", True, eb, lambda mkp=mkp: SingleInterval(3, 9, P).reset_parent(make_parent_obj(mkp())))
        E(f"CompoundInterval.reset_parent/new_parent/{lab}", True, eb, lambda mkp=mkp: CompoundInterval([0, 5], [3, 8], M).reset_parent(make_parent_obj(mkp())))
        E(f"FeatureInterval/parent_or_seq_chunk_parent/{lab}", True, eb, lambda mkp=mkp: FeatureInterval([1], [3], P, parent_or_seq_chunk_parent=make_parent_obj(mkp())))
        E(f"FeatureInterval/parent_or_seq_chunk_parent/{lab}-multi-block", True, eb,
          lambda mkp=mkp: FeatureInterval([1, 5], [3, 8], M, parent_or_seq_chunk_parent=make_parent_obj(mkp())))
        E(f"TranscriptInterval/parent_or_seq_chunk_parent/{lab}", True, eb, lambda mkp=mkp: tx(parent_or_seq_chunk_parent=make_parent_obj(mkp())))
        E(f"CDSInterval/parent_or_seq_chunk_parent/{lab}", True, eb, lambda mkp=mkp: cds(parent_or_seq_chunk_parent=make_parent_obj(mkp())))
        E(f"VariantInterval/parent_or_seq_chunk_parent/{lab}", True, eb, lambda mkp=mkp: var(parent_or_seq_chunk_parent=make_parent_obj(mkp())))
        E(f"AnnotationCollection/parent_or_seq_chunk_parent/{lab}-with-bounds", True, eb,
          lambda mkp=mkp: AnnotationCollection(start=0, end=5, parent_or_seq_chunk_parent=make_parent_obj(mkp())))

    def make_parent_obj(x):
        from inscripta.biocantor.parent import make_parent

        return make_parent(x)

    for lab, mkloc in (("single", lambda: SingleInterval(0, 6, P)), ("single-minus-offset", lambda: SingleInterval(3, 4, M)), ("compound", lambda: CompoundInterval([0, 5], [3, 8], P)),
                       ("zero-length-beyond", lambda: SingleInterval(5, 5, P))):
        E(f"Parent/location/{lab}-on-empty-sequence", True, eb, lambda mkloc=mkloc: Parent(sequence=empty_seq(), location=mkloc()))
        E(f"Parent/location/{lab}-on-empty-sequence-with-id", True, eb, lambda mkloc=mkloc: Parent(id="chr1", sequence=empty_seq(id="chr1"), location=mkloc()))
    E("Parent/location/zero-length-at-0-on-empty-sequence", None, "fits", lambda: Parent(sequence=empty_seq(), location=SingleInterval(0, 0, P)))
    lp = "Parent.__init__: 'len(sequence) > len(parent_obj.sequence): raise LocationException(\"Parent ... is longer than parent of parent\")'"
    E("Parent/parent/grandparent-with-empty-sequence", True, lp, lambda: Parent(sequence=seq40(), parent=Parent(id="top", sequence=empty_seq())))
    E("Parent/parent/empty-sequence-as-grandparent", True, lp + " (make_parent registers Sequence)", lambda: Parent(sequence=seq40(), parent=empty_seq()))
    E("Parent/sequence/empty-under-longer-grandparent", None, "0 <= 40: fits", lambda: Parent(sequence=empty_seq(), parent=Parent(id="top", sequence=seq40(id="top"))))
    E("Parent/id/empty-string-vs-sequence-id", True, uv + " ('' is a value, only None is skipped)", lambda: Parent(id="", sequence=seq40()))
    E("Parent/sequence_type/empty-string-vs-sequence-type", True, uv, lambda: Parent(sequence_type="", sequence=seq40()))
    E("Parent/id/empty-string-vs-location-parent-id", True, uv, lambda: Parent(id="", location=SingleInterval(3, 9, P, parent="chr2")))
    E("Parent/strand/mismatch-with-zero-length-location", True, "Parent.__init__: 'strand is not location.strand: raise InvalidStrandException'",
      lambda: Parent(strand=P, location=SingleInterval(5, 5, M)))
    sl = "Sequence.__init__: 'len(self.parent.location) != len(self): raise MismatchedParentException' (a zero-length location is a location)"
    E("Sequence/parent/zero-length-location-for-nonempty-data", True, sl, lambda: Sequence("ACGT", Alphabet.NT_STRICT, parent=Parent(location=SingleInterval(5, 5, P))))
    E("Sequence/parent/zero-length-location-as-parent-for-nonempty-data", True, sl + " (make_parent registers Location)",
      lambda: Sequence("ACGT", Alphabet.NT_STRICT, parent=SingleInterval(5, 5, P)))
    E("Sequence/data/empty-for-nonempty-parent-location", True, sl, lambda: empty_seq(parent=Parent(location=SingleInterval(0, 5, P))))
    E("Sequence/data/empty-for-zero-length-parent-location", None, "0 == 0: fits", lambda: empty_seq(parent=Parent(location=SingleInterval(4, 4, P))))
    E("Sequence/data/empty-wrong-alphabet-impossible", None, "the empty string conforms to every alphabet", lambda: Sequence("", Alphabet.AA))
    # 0 / empty list / empty string where None means "absent"
    E("AnnotationCollection/start/zero-without-end", True, "collections.py: 'end is None and start is not None: raise InvalidAnnotationError'", lambda: AnnotationCollection(start=0))
    E("AnnotationCollection/end/zero-without-start", True, "collections.py: 'start is None and end is not None: raise InvalidAnnotationError'", lambda: AnnotationCollection(end=0))
    E("AnnotationCollection/-/valid-zero-bounds", None, "", lambda: AnnotationCollection(start=0, end=0))
    E("AnnotationCollection.query_by_position/start/zero-before-bounds", True, iq, lambda: coll(start=5, end=30).query_by_position(0, 10))
    E("AnnotationCollection.query_by_position/start/zero-before-bounds-on-queried-collection", True, iq,
      lambda: coll().query_by_position(5, 30, completely_within=False).query_by_position(0, 10))
    E("AnnotationCollection.query_by_position/end/zero", True, iq, lambda: coll().query_by_position(0, 0))
    E("AnnotationCollection.query_by_position/end/zero-with-start", True, iq, lambda: coll().query_by_position(3, 0))
    E("TranscriptInterval/cds_starts/empty-list-without-ends", True, ic + " 'cds_starts is not None and cds_ends is None'", lambda: tx(cds_starts=[], cds_ends=None))
    E("TranscriptInterval/cds_ends/empty-list-without-starts", True, ic + " 'cds_starts is None and cds_ends is not None'", lambda: tx(cds_starts=None, cds_ends=[]))
    E("TranscriptInterval/cds_frames/empty-list", True, ic + " 'len(cds_frames) != len(cds_starts)'", lambda: tx(cds_frames=[]))
    E("GeneInterval/transcripts/empty-tuple", True, "gene.py: 'if not transcripts: raise InvalidAnnotationError'", lambda: gene(()))
    E("FeatureIntervalCollection/feature_intervals/empty-tuple", True, "feature.py: 'if not feature_intervals: raise InvalidAnnotationError'", lambda: fcoll(()))
    E("VariantIntervalCollection/variant_intervals/empty-tuple", True, "variants.py: 'if not variant_intervals: raise InvalidAnnotationError'", lambda: vcoll(()))
    E("VariantInterval/start,end/zero-zero", True, "variants.py: 'if start == end: raise EmptyLocationException'", lambda: var(0, 0))
    E("VariantInterval/sequence/empty-deletion", None, "module docstring: unpadded deletion has sequence ''", lambda: var(5, 8, "", "deletion"))
    for lab, q in (("empty-list", []), ("empty-string", ""), ("zero", 0), ("empty-tuple", ())):
        E(f"FeatureInterval/qualifiers/falsy-{lab}", False, "'if qualifiers:' guards the isinstance check - an empty non-dict is treated as absent (not documented either way)",
          lambda q=q: feat(qualifiers=q))
    E("ParentModel.to_parent/sequence_name/empty-string-for-chunk", True, ii, lambda: ParentModel(seq="ACGT", sequence_name="", type="sequence_chunk", start=0, end=4).to_parent())
    E("ParentModel.to_parent/-/valid-chunk-at-zero", None, "start=0 is a position, not 'absent'", lambda: ParentModel(seq="ACGT", sequence_name="c", type="sequence_chunk", start=0, end=4).to_parent())
    E("ParentModel.to_parent/start,end/zero-zero-for-nonempty-chunk", True, "Sequence.__init__: MismatchedParentException (4 != 0)",
      lambda: ParentModel(seq="ACGT", sequence_name="c", type="sequence_chunk", start=0, end=0).to_parent())
    E("SingleInterval.scan_windows/start_pos/zero-on-empty-interval", True, sw + " ('not 0 <= start_pos < len(self)')", lambda: list(SingleInterval(3, 3, P).scan_windows(1, 1, 0)))

    # ==========================================================================================================
    # "same id, different content" parents: every operation that documents a parent check compares the parents with
    # Parent.equals_except_location (id, sequence type, sequence, parent of parent) - never the ids alone - and a parent
    # without id is still a parent
    # ==========================================================================================================
    def mismatches():
        g2 = G40[::-1]

        def named(seq, type=None, id="chr1", **kw):
            return Parent(id=id, sequence_type=type, sequence=Sequence(seq, Alphabet.NT_STRICT, type=type) if seq else None, **kw)

        return [("same-id-other-sequence", named(G40), named(g2)),
                ("same-id-other-sequence-type", named(G40, "chromosome"), named(G40, "plasmid")),
                ("same-id-typed-vs-untyped", named(None, "chromosome"), named(None)),
                ("same-id-with-vs-without-sequence", named(G40), named(None)),
                ("same-id-other-grandparent", named(None, parent=Parent(id="top1")), named(None, parent=Parent(id="top2"))),
                ("no-id-other-sequence", named(G40, id=None), named(g2, id=None)),
                ("unnamed-parent-vs-no-parent", named(G40, id=None), None),
                ("no-parent-vs-unnamed-parent", None, named(G40, id=None))]

    pe = "Parent.equals_except_location compares id, sequence_type, sequence and parent of parent; "
    for lab, pa, pb in mismatches():
        a_none = pa is None
        E(f"CompoundInterval.from_single_intervals/intervals/{lab}", True, pe + fsi + " on 'len(interval_parents) > 1' (location-stripped parents)",
          lambda pa=pa, pb=pb: CompoundInterval.from_single_intervals([SingleInterval(0, 3, P, pa), SingleInterval(5, 8, P, pb)]))
        E(f"CompoundInterval.from_single_intervals/intervals/{lab}-minus-three-blocks", True, pe + fsi,
          lambda pa=pa, pb=pb: CompoundInterval.from_single_intervals([SingleInterval(0, 3, M, pa), SingleInterval(5, 8, M, pa), SingleInterval(10, 12, M, pb)]))
        for cls_name, mk in (("SingleInterval", lambda p: SingleInterval(3, 9, P, p)), ("CompoundInterval", lambda p: CompoundInterval([3, 12], [6, 15], P, p))):
            oth = lambda p: SingleInterval(4, 14, P, p)  # noqa: E731
            oth2 = lambda p: CompoundInterval([4, 13], [5, 20], P, p)  # noqa: E731
            if not a_none:     # union / union_preserve_overlaps document the check only 'if self.parent'
                E(f"{cls_name}.union/other/{lab}", True, pe + mp, lambda mk=mk, pa=pa, pb=pb: mk(pa).union(oth(pb)))
                E(f"{cls_name}.union/other-compound/{lab}", True, pe + mp, lambda mk=mk, pa=pa, pb=pb: mk(pa).union(oth2(pb)))
                E(f"{cls_name}.union_preserve_overlaps/other/{lab}", True, pe + mp, lambda mk=mk, pa=pa, pb=pb: mk(pa).union_preserve_overlaps(oth(pb)))
            E(f"{cls_name}.distance_to/other/{lab}", True, pe + mp, lambda mk=mk, pa=pa, pb=pb: mk(pa).distance_to(oth(pb)))
            E(f"{cls_name}.distance_to/other-compound/{lab}", True, pe + mp, lambda mk=mk, pa=pa, pb=pb: mk(pa).distance_to(oth2(pb)))
            for op in ("has_overlap", "intersection", "minus", "contains"):
                E(f"{cls_name}.{op}/other/{lab}-strict", True, "strict_parent_compare=True: " + pe + mp,
                  lambda mk=mk, op=op, pa=pa, pb=pb: getattr(mk(pa), op)(oth(pb), strict_parent_compare=True))
            E(f"{cls_name}.location_relative_to/other/{lab}", True, "location_relative_to: NullParentException when only the other has a parent, else " + mp,
              lambda mk=mk, pa=pa, pb=pb: mk(pa).location_relative_to(oth(pb)))
        if not a_none:
            E(f"Sequence.append/other/{lab}", True, "append: 'if not self.parent.equals_except_location(other.parent): raise ValueError(\"Sequences must have same parent\")'",
              lambda pa=pa, pb=pb: Sequence("ACGT", Alphabet.NT_STRICT, parent=pa.reset_location(SingleInterval(0, 4, P))).append(
                  Sequence("ACGT", Alphabet.NT_STRICT, parent=pb.reset_location(SingleInterval(4, 8, P)) if pb is not None else None)))
            if pb is not None:
                E(f"Parent/parent/{lab}-vs-sequence-parent", True, "Parent.__init__ -> require_parents_equal_except_location(parent_obj, sequence.parent): " + pe,
                  lambda pa=pa, pb=pb: Parent(sequence=Sequence("ACGT", Alphabet.NT_STRICT, parent=pa), parent=pb))
    lo = "interval.py liftover_to_parent_or_seq_chunk_parent / liftover_location_to_seq_chunk_parent: 'if loc_chrom.sequence and par_chrom.sequence: require_parents_equal_except_location'"
    other_assembly = lambda: seq_to_parent(G40[::-1], seq_id="chr1")  # noqa: E731  - same name, other sequence
    E("TranscriptInterval.liftover_to_parent_or_seq_chunk_parent/parent/same-id-other-sequence", True, lo, lambda: tx().liftover_to_parent_or_seq_chunk_parent(other_assembly()))
    E("FeatureInterval.liftover_to_parent_or_seq_chunk_parent/parent/same-id-other-sequence", True, lo, lambda: feat().liftover_to_parent_or_seq_chunk_parent(other_assembly()))
    E("GeneInterval.liftover_to_parent_or_seq_chunk_parent/parent/same-id-other-sequence", True, lo, lambda: gene().liftover_to_parent_or_seq_chunk_parent(other_assembly()))
    E("AnnotationCollection.liftover_to_parent_or_seq_chunk_parent/parent/same-id-other-sequence", True, lo, lambda: coll().liftover_to_parent_or_seq_chunk_parent(other_assembly()))
    E("TranscriptInterval.liftover_to_parent_or_seq_chunk_parent/parent/same-id-other-sequence-from-chunk", True, lo + " (chunk-relative interval: the chromosome above the chunk carries no sequence -> ids / types are compared)",
      lambda: tx(parent_or_seq_chunk_parent=chunk(0, 40)).liftover_to_parent_or_seq_chunk_parent(seq_chunk_to_parent(G40[2:30], "chrOther", 2, 30)))
    E("TranscriptInterval.liftover_to_parent_or_seq_chunk_parent/parent/same-chromosome-without-sequence", None, "documented: sequence-less chromosomes are compared without sequence",
      lambda: tx().liftover_to_parent_or_seq_chunk_parent(chrom_noseq()))
    E("AbstractInterval.liftover_location_to_seq_chunk_parent/location/chunk-relative-on-other-chromosome", True, lo,
      lambda: FeatureInterval.liftover_location_to_seq_chunk_parent(SingleInterval(2, 8, P, chunk(0, 40)), seq_chunk_to_parent(G40[2:30], "chrOther", 2, 30)))

    # ==========================================================================================================
    # io.models
    # ==========================================================================================================
    E("ParentModel.to_parent/-/valid-chunk", None, "", lambda: ParentModel(seq="ACGT", sequence_name="chr1", type="sequence_chunk", start=3, end=7).to_parent())
    E("ParentModel.to_parent/-/valid-chromosome", None, "", lambda: ParentModel(seq="ACGT", sequence_name="chr1").to_parent())
    E("ParentModel.to_parent/sequence_name/missing-for-chunk", True, ii, lambda: ParentModel(seq="ACGT", type="sequence_chunk", start=0, end=4).to_parent())
    E("ParentModel.to_parent/start/missing-for-chunk", True, ii, lambda: ParentModel(seq="ACGT", sequence_name="c", type="sequence_chunk", end=4).to_parent())
    E("ParentModel.to_parent/end/missing-for-chunk", True, ii, lambda: ParentModel(seq="ACGT", sequence_name="c", type="sequence_chunk", start=0).to_parent())
    E("ParentModel.to_parent/start,end/length-mismatch", True, "Sequence.__init__: MismatchedParentException (chunk length != location length)",
      lambda: ParentModel(seq="ACGT", sequence_name="c", type="sequence_chunk", start=0, end=9).to_parent())
    E("ParentModel.to_parent/start/start>end", True, "SingleInterval.__init__", lambda: ParentModel(seq="ACGT", sequence_name="c", type="sequence_chunk", start=9, end=5).to_parent())
    E("ParentModel.to_parent/seq/wrong-alphabet", True, "AlphabetError", lambda: ParentModel(seq="AC!T", sequence_name="c").to_parent())
    txd = dict(exon_starts=[2, 12], exon_ends=[10, 24], strand="PLUS", cds_starts=[4, 12], cds_ends=[10, 20], cds_frames=["ZERO", "ZERO"])

    def txm(**kw):
        d = dict(txd)
        d.update(kw)
        return TranscriptIntervalModel.Schema().load(d).to_transcript_interval(chrom())

    E("TranscriptIntervalModel.to_transcript_interval/-/valid", None, "", lambda: txm())
    E("TranscriptIntervalModel.to_transcript_interval/cds_ends/beyond-last-exon", True, ic, lambda: txm(cds_ends=[10, 30]))
    E("TranscriptIntervalModel.to_transcript_interval/cds_frames/fewer-than-blocks", True, ic, lambda: txm(cds_frames=["ZERO"]))
    E("TranscriptIntervalModel.to_transcript_interval/exon_ends/unequal-lengths", True, il, lambda: txm(exon_ends=[10]))
    E("TranscriptIntervalModel.to_transcript_interval/cds_starts/start-without-end", True, ic, lambda: txm(cds_ends=None))
    E("TranscriptIntervalModel.Schema.load/strand/unknown-name", True, "marshmallow schema: refuses the record (ValidationError of the schema library)", lambda: txm(strand="SIDEWAYS"))
    E("TranscriptIntervalModel.Schema.load/exon_starts/missing", True, "marshmallow schema: required field", lambda: TranscriptIntervalModel.Schema().load({"strand": "PLUS"}))
    E("FeatureIntervalModel.to_feature_interval/interval_ends/unequal-lengths", True, il,
      lambda: FeatureIntervalModel.Schema().load(dict(interval_starts=[1, 5], interval_ends=[3], strand="PLUS")).to_feature_interval())
    E("FeatureIntervalModel.to_feature_interval/interval_starts/start>end", True, "location constructors",
      lambda: FeatureIntervalModel.Schema().load(dict(interval_starts=[9], interval_ends=[3], strand="MINUS")).to_feature_interval())
    E("VariantIntervalModel.to_variant_interval/start,end/zero-length", True, "EmptyLocationException",
      lambda: VariantIntervalModel.Schema().load(dict(start=4, end=4, sequence="A", variant_type="insertion")).to_variant_interval())
    E("GeneIntervalModel.to_gene_interval/transcripts/empty-list", True, "InvalidAnnotationError", lambda: GeneIntervalModel.Schema().load(dict(transcripts=[])).to_gene_interval())
    E("GeneIntervalModel.to_gene_interval/transcripts/duplicate-child", True, "DuplicateTranscriptError",
      lambda: GeneIntervalModel.Schema().load(dict(transcripts=[txd, txd])).to_gene_interval(chrom()))
    E("AnnotationCollectionModel.to_annotation_collection/-/valid", None, "",
      lambda: AnnotationCollectionModel.Schema().load(dict(genes=[dict(transcripts=[txd], gene_id="g")], sequence_name="chr1",
                                                           parent_or_seq_chunk_parent=dict(seq=G40, sequence_name="chr1"))).to_annotation_collection())
    E("AnnotationCollectionModel.to_annotation_collection/start/start-without-end", True, "InvalidAnnotationError",
      lambda: AnnotationCollectionModel.Schema().load(dict(genes=[dict(transcripts=[txd])], start=3)).to_annotation_collection())
    E("AnnotationCollectionModel.to_annotation_collection/parent_or_seq_chunk_parent/chunk-without-name", True, ii,
      lambda: AnnotationCollectionModel.Schema().load(dict(genes=[dict(transcripts=[txd])], parent_or_seq_chunk_parent=dict(seq="ACGT", type="sequence_chunk", start=0, end=4))).to_annotation_collection())
    E("AnnotationCollectionModel.to_annotation_collection/genes/exon-beyond-sequence", True, "Parent.__init__ location.end > len(sequence)",
      lambda: AnnotationCollectionModel.Schema().load(dict(genes=[dict(transcripts=[dict(txd, exon_ends=[10, 50])])],
                                                           parent_or_seq_chunk_parent=dict(seq=G40, sequence_name="chr1"))).to_annotation_collection())
    return out


def names():
    return [e[0] for e in build_matrix()]
