"""Gene-layer workloads: JSON-able *specs* of CDS / transcripts / features / genes / feature collections / annotation
collections, seeded generators for them, and builders that turn a spec into real BioCantor objects on a chosen
parent (none, whole chromosome with sequence, chromosome without sequence, sequence chunk [cs, ce)).

Spec shapes (all plain lists / ints / strings, chromosome coordinates, blocks sorted and non-overlapping unless said):
  transcript: {"exons": [[s,e],..], "strand": "+|-", "cds": [[s,e],..] | None, "frames": [0|1|2,..] | None,
               "transcript_id", "transcript_symbol", "transcript_type", "protein_id", "product", "is_primary_tx",
               "qualifiers": {key: [values]}, "guid": None|str}
  feature:    {"blocks": [[s,e],..], "strand", "feature_types": [..], "feature_name", "feature_id", "is_primary_feature", "qualifiers"}
  gene:       {"transcripts": [transcript..], "gene_id", "gene_symbol", "gene_type", "locus_tag", "qualifiers"}
  fcoll:      {"features": [feature..], "feature_collection_name", "feature_collection_id", "feature_collection_type", "locus_tag", "qualifiers"}
  collection: {"genes": [gene..], "fcolls": [fcoll..], "name", "sequence_name", "start": None|int, "end": None|int, "qualifiers"}
  parent:     {"mode": "none"|"chrom"|"chrom-noseq"|"chunk", "genome": str, "seqname": str, "window": [cs, ce]}
Frames are BioCantor frames per CDS block in plus-strand block order (see bcv.models.framemodel).
"""
import uuid

from bcv.models import framemodel as FM

BIOTYPES_CODING = ["protein_coding"]
BIOTYPES_NONCODING = ["tRNA", "rRNA", "ncRNA", "misc_RNA", "tmRNA", "lncRNA", "snoRNA"]


# --------------------------------------------------------------------------------------------------------------
# generators
# --------------------------------------------------------------------------------------------------------------
def rand_blocks(rng, lo, hi, nblocks, min_len=1, max_len=None, adjacent_prob=0.15):
    """nblocks sorted non-overlapping non-empty blocks inside [lo, hi); gaps may be 0 (adjacent) with adjacent_prob."""
    span = hi - lo
    nblocks = max(1, min(nblocks, span // max(1, min_len)))
    for _ in range(50):
        lens = [rng.randint(min_len, max(min_len, (max_len or max(min_len, span // nblocks)))) for _ in range(nblocks)]
        gaps = [0 if rng.random() < adjacent_prob else rng.randint(1, max(1, span // (2 * nblocks))) for _ in range(nblocks - 1)]
        total = sum(lens) + sum(gaps)
        if total <= span:
            s = lo + rng.randint(0, span - total)
            out = []
            for k, ln in enumerate(lens):
                out.append([s, s + ln])
                s += ln + (gaps[k] if k < len(gaps) else 0)
            return out
    return [[lo, min(hi, lo + max(min_len, 1))]]


def clip_blocks(blocks, lo, hi):
    """Blocks restricted to [lo, hi) (empty pieces removed)."""
    out = []
    for s, e in blocks:
        s2, e2 = max(s, lo), min(e, hi)
        if s2 < e2:
            out.append([s2, e2])
    return out


def rand_cds_in_exons(rng, exons, mode=None):
    """A CDS made of the exon blocks clipped to a random [cstart, cend) whose ends sit on exon positions.
    mode: None (random) | 'full' | 'start-at-boundary' | 'end-at-boundary' | 'single-exon'."""
    pos = [p for s, e in exons for p in range(s, e)]
    mode = mode or rng.choice(["random", "random", "full", "start-at-boundary", "end-at-boundary", "single-exon"])
    if mode == "full" or len(pos) < 2:
        return [list(b) for b in exons]
    if mode == "single-exon":
        s, e = exons[rng.randrange(len(exons))]
        a = rng.randint(s, e - 1)
        b = rng.randint(a + 1, e)
        return [[a, b]]
    starts = [s for s, _ in exons]
    ends = [e for _, e in exons]
    if mode == "start-at-boundary":
        a = rng.choice(starts)
    else:
        a = rng.choice(pos)
    cands = [p + 1 for p in pos if p >= a]
    if mode == "end-at-boundary":
        c2 = [e for e in ends if e > a]
        b = rng.choice(c2) if c2 else max(cands)
    else:
        b = rng.choice(cands)
    return clip_blocks(exons, a, b)


def rand_frames(rng, cds, strand, start_offset=None, frameshifts=0):
    """Annotated frames for a CDS: one uninterrupted frame starting at start_offset, with `frameshifts` blocks
    (not the 5' one) re-annotated to a different frame (programmed frameshift / indel model)."""
    off = rng.choice([0, 0, 0, 1, 2]) if start_offset is None else start_offset
    fr = FM.consistent_frames(cds, strand, off)
    n = len(fr)
    idx5 = n - 1 if strand == "-" else 0
    cand = [k for k in range(n) if k != idx5]
    rng.shuffle(cand)
    for k in cand[:frameshifts]:
        fr[k] = (fr[k] + rng.choice([1, 2])) % 3
    return fr


_QKEYS = ["note", "evidence", "db_xref", "function", "colour", "score", "my_key"]


def rand_qualifiers(rng, nmax=3, alphabet=None):
    out = {}
    for _ in range(rng.randint(0, nmax)):
        k = rng.choice(_QKEYS)
        vals = []
        for _ in range(rng.randint(1, 3)):
            t = rng.random()
            if t < 0.6:
                vals.append("v" + str(rng.randint(0, 999)))
            elif t < 0.8:
                vals.append(rng.randint(0, 50))
            elif t < 0.9:
                vals.append(rng.choice([True, False]))
            else:
                vals.append(round(rng.random(), 3))
        out[k] = vals
    return out


def rand_transcript_spec(rng, lo, hi, coding=None, max_exons=4, strand=None, ident=None, frameshifts=None, start_offset=None,
                         qualifiers=True, cds_mode=None):
    strand = strand or rng.choice("+-")
    exons = rand_blocks(rng, lo, hi, rng.randint(1, max_exons), min_len=1)
    coding = (rng.random() < 0.65) if coding is None else coding
    ident = ident if ident is not None else str(rng.randint(0, 10 ** 6))
    spec = {"exons": exons, "strand": strand, "cds": None, "frames": None,
            "transcript_id": "tx" + ident, "transcript_symbol": "sym" + ident,
            "transcript_type": None, "protein_id": None, "product": None, "is_primary_tx": None,
            "qualifiers": rand_qualifiers(rng) if qualifiers else {}, "guid": None}
    if coding:
        cds = rand_cds_in_exons(rng, exons, cds_mode)
        if sum(e - s for s, e in cds) >= 1:
            fs = frameshifts if frameshifts is not None else (1 if (len(cds) > 1 and rng.random() < 0.15) else 0)
            spec["cds"] = cds
            spec["frames"] = rand_frames(rng, cds, strand, start_offset, fs)
            spec["transcript_type"] = "protein_coding"
            spec["protein_id"] = "prot" + ident
            spec["product"] = "product " + ident
    if spec["cds"] is None:
        spec["transcript_type"] = rng.choice(BIOTYPES_NONCODING + [None])
    return spec


def rand_feature_spec(rng, lo, hi, max_blocks=3, strand=None, ident=None, qualifiers=True):
    ident = ident if ident is not None else str(rng.randint(0, 10 ** 6))
    return {"blocks": rand_blocks(rng, lo, hi, rng.randint(1, max_blocks)), "strand": strand or rng.choice("+-"),
            "feature_types": sorted(set(rng.sample(["promoter", "enhancer", "site", "binding", "repeat"], rng.randint(0, 2)))),
            "feature_name": "feat" + ident, "feature_id": "fid" + ident, "is_primary_feature": None,
            "qualifiers": rand_qualifiers(rng) if qualifiers else {}, "guid": None}


def rand_gene_spec(rng, lo, hi, ntx=None, same_strand=True, ident=None, coding=None, max_exons=4, qualifiers=True):
    ident = ident if ident is not None else str(rng.randint(0, 10 ** 6))
    strand = rng.choice("+-")
    n = ntx or rng.choice([1, 1, 2, 3])
    txs = [rand_transcript_spec(rng, lo, hi, coding=coding, max_exons=max_exons, strand=strand if same_strand else None,
                                ident=f"{ident}_{k}", qualifiers=qualifiers) for k in range(n)]
    is_coding = any(t["cds"] for t in txs)
    return {"transcripts": txs, "gene_id": "gene" + ident, "gene_symbol": "gsym" + ident,
            "gene_type": "protein_coding" if is_coding else rng.choice(BIOTYPES_NONCODING),
            "locus_tag": "LT_" + ident, "qualifiers": rand_qualifiers(rng) if qualifiers else {}, "guid": None}


def rand_fcoll_spec(rng, lo, hi, nfeat=None, ident=None, qualifiers=True):
    ident = ident if ident is not None else str(rng.randint(0, 10 ** 6))
    n = nfeat or rng.choice([1, 2, 3])
    return {"features": [rand_feature_spec(rng, lo, hi, ident=f"{ident}_{k}", qualifiers=qualifiers) for k in range(n)],
            "feature_collection_name": "fc" + ident, "feature_collection_id": "fcid" + ident, "feature_collection_type": None,
            "locus_tag": "FLT_" + ident, "qualifiers": rand_qualifiers(rng) if qualifiers else {}, "guid": None}


def rand_collection_spec(rng, genome_len, ngenes=None, nfcolls=None, seqname="chr1", disjoint=False, bounds=False, qualifiers=True,
                         coding=None, max_exons=4):
    ng = rng.randint(1, 5) if ngenes is None else ngenes
    nf = rng.randint(0, 3) if nfcolls is None else nfcolls
    total = ng + nf
    genes, fcolls = [], []
    if disjoint and total:
        width = genome_len // total
        slots = [(k * width, (k + 1) * width) for k in range(total)]
    else:
        slots = []
        for _ in range(total):
            w = rng.randint(min(8, genome_len), max(8, genome_len // 2))
            s = rng.randint(0, max(0, genome_len - w))
            slots.append((s, min(genome_len, s + w)))
    for k in range(ng):
        lo, hi = slots[k]
        genes.append(rand_gene_spec(rng, lo, hi, ident=f"g{k}", qualifiers=qualifiers, coding=coding, max_exons=max_exons))
    for k in range(nf):
        lo, hi = slots[ng + k]
        fcolls.append(rand_fcoll_spec(rng, lo, hi, ident=f"f{k}", qualifiers=qualifiers))
    spec = {"genes": genes, "fcolls": fcolls, "name": "coll", "sequence_name": seqname, "start": None, "end": None,
            "qualifiers": rand_qualifiers(rng) if qualifiers else {}}
    if bounds:
        spec["start"], spec["end"] = 0, genome_len
    return spec


def rand_genome(rng, n, alphabet="ACGT"):
    return "".join(rng.choice(alphabet) for _ in range(n))


# --------------------------------------------------------------------------------------------------------------
# span helpers (model side, plain ints)
# --------------------------------------------------------------------------------------------------------------
def tx_span(t):
    return t["exons"][0][0], t["exons"][-1][1]


def feat_span(f):
    return f["blocks"][0][0], f["blocks"][-1][1]


def gene_span(g):
    return min(tx_span(t)[0] for t in g["transcripts"]), max(tx_span(t)[1] for t in g["transcripts"])


def fcoll_span(fc):
    return min(feat_span(f)[0] for f in fc["features"]), max(feat_span(f)[1] for f in fc["features"])


# --------------------------------------------------------------------------------------------------------------
# builders (real BioCantor objects)
# --------------------------------------------------------------------------------------------------------------
def build_parent(pspec):
    """pspec: {"mode", "genome", "seqname", "window"} -> Parent or None."""
    from inscripta.biocantor.io.parser import seq_to_parent, seq_chunk_to_parent
    from inscripta.biocantor.parent import Parent, SequenceType

    if pspec is None:
        return None
    mode = pspec.get("mode", "none")
    name = pspec.get("seqname", "chr1")
    if mode == "none":
        return None
    if mode == "chrom":
        return seq_to_parent(pspec["genome"], seq_id=name)
    if mode == "chrom-noseq":
        return Parent(id=name, sequence_type=SequenceType.CHROMOSOME)
    if mode == "chunk":
        cs, ce = pspec["window"]
        return seq_chunk_to_parent(pspec["genome"][cs:ce], name, cs, ce)
    raise ValueError(mode)


def _strand(sym):
    from inscripta.biocantor.location.strand import Strand

    return {"+": Strand.PLUS, "-": Strand.MINUS, ".": Strand.UNSTRANDED}[sym]


def _frames(fr):
    from inscripta.biocantor.gene.cds_frame import CDSFrame

    return [CDSFrame(int(f)) for f in fr]


def _biotype(name):
    from inscripta.biocantor.gene.biotype import Biotype

    return Biotype[name] if name else None


def _uuid(x):
    return uuid.UUID(x) if isinstance(x, str) else x


def _form(xs):
    """The same coordinates as a list or - for a third of the inputs, chosen by their content so that replays agree - as a tuple:
    both are ordinary ways of handing a sequence of ints to a constructor."""
    xs = list(xs)
    return tuple(xs) if (sum(int(x) for x in xs) + len(xs)) % 3 == 0 else xs


def build_cds(tspec, parent=None, seqname=None):
    from inscripta.biocantor.gene.cds import CDSInterval

    cds = tspec["cds"]
    return CDSInterval(_form(b[0] for b in cds), _form(b[1] for b in cds), _strand(tspec["strand"]), _frames(tspec["frames"]),
                       sequence_name=seqname, protein_id=tspec.get("protein_id"), product=tspec.get("product"),
                       parent_or_seq_chunk_parent=parent)


def build_transcript(tspec, parent=None, seqname=None):
    from inscripta.biocantor.gene.transcript import TranscriptInterval

    cds = tspec.get("cds")
    return TranscriptInterval(
        exon_starts=_form(b[0] for b in tspec["exons"]), exon_ends=_form(b[1] for b in tspec["exons"]), strand=_strand(tspec["strand"]),
        cds_starts=_form(b[0] for b in cds) if cds else None, cds_ends=_form(b[1] for b in cds) if cds else None,
        cds_frames=_frames(tspec["frames"]) if cds else None,
        qualifiers={k: list(v) for k, v in (tspec.get("qualifiers") or {}).items()} or None,
        is_primary_tx=tspec.get("is_primary_tx"), transcript_id=tspec.get("transcript_id"),
        transcript_symbol=tspec.get("transcript_symbol"), transcript_type=_biotype(tspec.get("transcript_type")),
        sequence_name=seqname, protein_id=tspec.get("protein_id"), product=tspec.get("product"),
        guid=_uuid(tspec.get("guid")), parent_or_seq_chunk_parent=parent)


def _types_form(fspec):
    """The feature types as a list, a tuple or a set (chosen by the content): all are collections of strings, stored as a set."""
    types = list(fspec.get("feature_types") or [])
    if not types:
        return None
    return (list, tuple, set)[(fspec["blocks"][0][0] + len(types)) % 3](types)


def build_feature(fspec, parent=None, seqname=None):
    from inscripta.biocantor.gene.feature import FeatureInterval

    return FeatureInterval(
        interval_starts=_form(b[0] for b in fspec["blocks"]), interval_ends=_form(b[1] for b in fspec["blocks"]), strand=_strand(fspec["strand"]),
        qualifiers={k: list(v) for k, v in (fspec.get("qualifiers") or {}).items()} or None, sequence_name=seqname,
        feature_types=_types_form(fspec), feature_name=fspec.get("feature_name"),
        feature_id=fspec.get("feature_id"), guid=_uuid(fspec.get("guid")), is_primary_feature=fspec.get("is_primary_feature"),
        parent_or_seq_chunk_parent=parent)


def build_gene(gspec, parent=None, seqname=None):
    from inscripta.biocantor.gene.gene import GeneInterval

    return GeneInterval(
        transcripts=[build_transcript(t, parent, seqname) for t in gspec["transcripts"]], guid=_uuid(gspec.get("guid")),
        gene_id=gspec.get("gene_id"), gene_symbol=gspec.get("gene_symbol"), gene_type=_biotype(gspec.get("gene_type")),
        locus_tag=gspec.get("locus_tag"), qualifiers={k: list(v) for k, v in (gspec.get("qualifiers") or {}).items()} or None,
        sequence_name=seqname, parent_or_seq_chunk_parent=parent)


def build_fcoll(fcspec, parent=None, seqname=None):
    from inscripta.biocantor.gene.feature import FeatureIntervalCollection

    return FeatureIntervalCollection(
        feature_intervals=[build_feature(f, parent, seqname) for f in fcspec["features"]],
        feature_collection_name=fcspec.get("feature_collection_name"), feature_collection_id=fcspec.get("feature_collection_id"),
        feature_collection_type=fcspec.get("feature_collection_type"), locus_tag=fcspec.get("locus_tag"), sequence_name=seqname,
        guid=_uuid(fcspec.get("guid")), qualifiers={k: list(v) for k, v in (fcspec.get("qualifiers") or {}).items()} or None,
        parent_or_seq_chunk_parent=parent)


def build_collection(cspec, parent=None):
    from inscripta.biocantor.gene.collections import AnnotationCollection

    seqname = cspec.get("sequence_name")
    return AnnotationCollection(
        feature_collections=[build_fcoll(fc, parent, seqname) for fc in cspec.get("fcolls", [])] or None,
        genes=[build_gene(g, parent, seqname) for g in cspec.get("genes", [])] or None,
        name=cspec.get("name"), sequence_name=seqname,
        qualifiers={k: list(v) for k, v in (cspec.get("qualifiers") or {}).items()} or None,
        start=cspec.get("start"), end=cspec.get("end"), parent_or_seq_chunk_parent=parent)
