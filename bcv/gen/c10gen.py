"""C10 workloads: JSON-able *root* cases (a location with a second location, a sequence, a codon, or one object of the
gene layer: CDS / transcript / feature / variant / gene / feature collection / variant collection / annotation collection,
taken from the serialisation generator bcv.gen.ser), builders that turn a case into a dict {path: real object} of
*targets* (the root and everything reachable from it: children, CDS, parents, sequences), look-alike perturbations of a
case, and the accessor catalogue (all public zero-argument properties / methods / instance attributes found by
`inspect` + curated fixed-argument calls whose arguments are plain values derived from a throw-away build).

Nothing here judges anything; bcv/props/c10.py holds the monitors."""
import copy
import inspect
import pickle
import random

from bcv.gen import loc as G
from bcv.gen import ser as S

# --------------------------------------------------------------------------------------------------------------
# case generators
# --------------------------------------------------------------------------------------------------------------
ALPHAS = [("NT_EXTENDED_GAPPED", "ACGT"), ("NT_EXTENDED_GAPPED", "ACGTNRYacgtn-"), ("NT_STRICT", "ACGT"), ("NT_EXTENDED", "ACGTNRY")]


def rand_loc_case(rng):
    pmode = rng.choice(["none", "id", "seq", "seq", "chunk", "chunk"])
    glen = rng.choice([12, 30, 80])
    alpha, letters = rng.choice(ALPHAS)
    genome = "".join(rng.choice(letters) for _ in range(glen))
    cs = rng.randint(0, glen // 3)
    ce = rng.randint(2 * glen // 3, glen)
    span = (ce - cs) if pmode == "chunk" else glen
    ov = rng.random() < 0.3
    blocks = [list(b) for b in G.rand_layout(rng, span, rng.choice([1, 2, 3, 5]), overlap=ov, allow_empty_blocks=(not ov) and rng.random() < 0.3)]
    if ov:
        # make sure two blocks really share a base (random placement rarely does): a block nested in / straddling the first one
        s0, e0 = next(((s, e) for s, e in blocks if e - s >= 1), (0, min(2, span)))
        blocks.append(rng.choice([[s0, min(span, e0 + 1)], [s0, e0], [max(0, s0 - 1), s0 + 1]]))
        blocks.sort()
    other = [list(b) for b in G.rand_layout(rng, span, rng.choice([1, 2, 3]), overlap=False, allow_empty_blocks=False)]
    return {"kind": "loc", "blocks": blocks, "strand": rng.choice("++--."), "compound": len(blocks) > 1 or rng.random() < 0.3,
            "other": other, "ostrand": rng.choice("+-+-."), "ocompound": len(other) > 1, "pmode": pmode, "genome": genome, "alphabet": alpha,
            "window": [cs, ce], "seqname": rng.choice(["chr1", "chr1", "chrX"])}


def rand_seq_case(rng):
    alpha, letters = rng.choice(ALPHAS + [("AA", "ACDEFGHIKLMNPQRSTVWY")])
    n = rng.choice([0, 1, 3, 7, 25, 70])
    data = "".join(rng.choice(letters) for _ in range(n))
    n2 = rng.choice([1, 4, 9])
    return {"kind": "seq", "data": data, "alphabet": alpha, "id": rng.choice([None, "s1", "chr1"]), "type": rng.choice([None, "chromosome", "mytype"]),
            "pmode": rng.choice(["none", "id", "loc+", "loc-", "loc+"]), "pstart": rng.randint(0, 20),
            "other": "".join(rng.choice(letters) for _ in range(n2)), "seqname": "chr1"}


def rand_codon_case(rng):
    pool = ["ATG", "atg", "AUG", "TAA", "TAG", "TGA", "CTG", "TTG", "GTG", "NNN", "ATN", "GCN", "RAY", "AT", "ATGA", "XYZ", "A-G", "cTg", "ATA"]
    c = rng.choice(pool)
    # noise: codons that share two letters with the root (registry keys that are too coarse collide), other spellings, random ones
    near = [c[:2] + x for x in "ACGTN"] + [x + c[1:] for x in "ACGT"] + [c.lower(), c.upper().replace("T", "U"), c[::-1]]
    return {"kind": "codon", "codon": c, "noise": rng.sample(near, 6) + [rng.choice(pool) for _ in range(4)]}


GENE_ROOTS = ("tx", "cds", "feat", "var", "gene", "fcoll", "vcoll", "coll")


def rand_gene_layer_case(rng, root):
    """A case whose root object is taken out of a random serialisation case (bcv.gen.ser.rand_case)."""
    shape = {"tx": "genes", "cds": "genes", "gene": "genes", "feat": "features", "fcoll": "features", "var": "variants", "vcoll": "variants",
             "coll": None}[root]
    for _ in range(200):
        c = S.rand_case(random.Random(rng.getrandbits(64)), glen=rng.choice([60, 120, 300]) if root != "coll" else rng.choice([60, 120]),
                        shape=shape if root != "coll" else rng.choice(["genes", "mixed", "mixed", "features", "mixed-variants", "mixed-variants", "empty"]))
        coll, parent = c["coll"], c["parent"]
        if coll.get("sequence_name") is None and rng.random() < 0.7:
            # most objects get a sequence name: GFF3 export refuses without one
            coll["sequence_name"] = parent["seqname"]
            for g in coll["genes"]:
                for t in g["transcripts"]:
                    t["sequence_name"] = parent["seqname"]
        seqname = coll.get("sequence_name")
        spec = None
        if root == "coll":
            spec = coll
        elif root in ("gene", "tx", "cds") and coll["genes"]:
            g = rng.choice(coll["genes"])
            if root == "gene":
                spec = g
            else:
                cand = [t for t in g["transcripts"] if t.get("cds")] if (root == "cds" or rng.random() < 0.7) else g["transcripts"]
                if cand:
                    spec = rng.choice(cand)
        elif root in ("fcoll", "feat") and coll["fcolls"]:
            fc = rng.choice(coll["fcolls"])
            spec = fc if root == "fcoll" else rng.choice(fc["features"])
        elif root in ("vcoll", "var") and coll.get("vcolls"):
            vc = rng.choice(coll["vcolls"])
            spec = vc if root == "vcoll" else rng.choice(vc["variants"])
        if spec is None:
            continue
        add_reserved_qualifiers(rng, spec, root)
        add_product_qualifiers(rng, spec, root)
        cut = "whole"
        if parent["mode"] in ("chunk", "chunk-minus", "chrom") and rng.random() < (0.55 if parent["mode"] != "chrom" else 0.3):
            cut = cut_window(rng, parent, spec, root)
        if parent["mode"] in ("chrom", "chunk", "chunk-minus"):
            for t in ([spec] if root in ("tx", "cds") else spec.get("transcripts", []) if root == "gene" else
                      [t for g in spec.get("genes", []) for t in g["transcripts"]] if root == "coll" else []):
                if t.get("cds") and rng.random() < 0.6:
                    engineer_cds(rng, parent, t)
        return {"kind": root, "spec": spec, "parent": parent, "seqname": seqname, "hostile": c["hostile"], "cut": cut}
    raise RuntimeError("generator could not produce a root of kind " + root)


def _spans_of(spec, root, rng):
    """(blocks of one member of the root, chosen at random) - the object the chunk window is going to cut."""
    if root in ("tx", "cds"):
        return spec["cds"] if (root == "cds" or (spec.get("cds") and rng.random() < 0.5)) else spec["exons"]
    if root == "feat":
        return spec["blocks"]
    if root == "var":
        return [[spec["start"], spec["end"]]]
    if root == "vcoll":
        v = rng.choice(spec["variants"])
        return [[v["start"], v["end"]]]
    if root == "gene":
        return _spans_of(rng.choice(spec["transcripts"]), "tx", rng)
    if root == "fcoll":
        return rng.choice(spec["features"])["blocks"]
    if root == "coll":
        pool = [("gene", g) for g in spec.get("genes", [])] + [("fcoll", f) for f in spec.get("fcolls", [])]
        if not pool:
            return None
        k, sub = rng.choice(pool)
        return _spans_of(sub, k, rng)
    return None


def cut_window(rng, parent, spec, root):
    """Replace the chunk window of the parent by one that CUTS the root (or one of its members): at its left / right end,
    at both ends, down to an intron only, or missing it altogether.  A chromosome parent becomes a chunk parent.  Whether
    the library accepts such an object is its business (a refusal of the constructor is skipped and counted)."""
    blocks = _spans_of(spec, root, rng)
    if not blocks:
        return "whole"
    glen = len(parent["genome"])
    lo, hi = min(b[0] for b in blocks), max(b[1] for b in blocks)
    introns = [(a[1], b[0]) for a, b in zip(blocks, blocks[1:]) if b[0] - a[1] >= 1]
    how = rng.choice(["left", "right", "both", "intron", "miss", "block-edge"])
    if how == "intron" and not introns:
        how = "left"
    if how == "miss" and lo < 2 and glen - hi < 2:
        how = "right"
    if hi - lo < 2 and how in ("left", "right", "both", "block-edge"):
        how = "miss" if (lo >= 2 or glen - hi >= 2) else "whole"
    if how == "left":
        w = [rng.randint(lo + 1, hi - 1), rng.randint(hi, glen)]
    elif how == "right":
        w = [rng.randint(0, lo), rng.randint(lo + 1, hi - 1)]
    elif how == "both":
        a = rng.randint(lo + 1, hi - 1)
        w = [a, rng.randint(a + 1, hi)] if a + 1 <= hi else [a - 1, a]
    elif how == "block-edge":
        # the window ends exactly on a block boundary (a whole exon is dropped, nothing is split)
        edges = sorted({b[0] for b in blocks[1:]} | {b[1] for b in blocks[:-1]}) or [rng.randint(lo + 1, hi - 1)]
        e = rng.choice(edges)
        w = [e, rng.randint(max(e + 1, hi), glen)] if rng.random() < 0.5 else [rng.randint(0, lo), e]
    elif how == "intron":
        a, b = rng.choice(introns)
        x = rng.randint(a, b - 1)
        w = [x, rng.randint(x + 1, b)]
    elif how == "miss":
        if lo >= 2 and (glen - hi < 2 or rng.random() < 0.5):
            x = rng.randint(0, lo - 2)
            w = [x, rng.randint(x + 1, lo - 1 if rng.random() < 0.5 else lo)]
        else:
            x = rng.randint(hi if rng.random() < 0.5 else hi + 1, glen - 1)
            w = [x, rng.randint(x + 1, glen)]
    else:
        return "whole"
    if not (0 <= w[0] < w[1] <= glen):
        return "whole"
    parent["window"] = w
    if parent["mode"] == "chrom":
        parent["mode"] = rng.choice(["chunk", "chunk", "chunk-minus"])
    if root == "coll" and rng.random() < 0.6:
        spec["start"], spec["end"] = None, None   # bounds follow the chunk; explicit bounds that contradict it are kept sometimes
    return how


RNA_PRODUCTS = ["16S_ribosomal RNA", "23S ribosomal RNA", "5S_rRNA", "tRNA-Ala", "RNase P", "signal recognition particle RNA"]


def add_product_qualifiers(rng, spec, root):
    """`product` qualifiers on coding and non-coding transcripts (and a gene-level one sometimes): the table / GenBank
    exporters consume them, so an exporter that edits the caller's model shows."""
    def tx(t):
        if rng.random() < 0.5:
            q = dict(t.get("qualifiers") or {})
            q["product"] = [rng.choice(RNA_PRODUCTS)] if not t.get("cds") else ["hypothetical_protein " + str(rng.randint(0, 9))]
            t["qualifiers"] = q

    def gene(g):
        for t in g["transcripts"]:
            tx(t)
        if rng.random() < 0.2:
            q = dict(g.get("qualifiers") or {})
            q["product"] = ["gene-level product"]
            g["qualifiers"] = q

    if root == "tx":
        tx(spec)
    elif root == "gene":
        gene(spec)
    elif root == "coll":
        for g in spec.get("genes", []):
            gene(g)


def rand_exportable_collection_case(rng):
    """An annotation collection tuned so that the file exporters (tbl in both flavours, GFF3, GenBank) accept it most of the
    time: chromosome parent with sequence, sequence name, plain ASCII qualifiers without reserved GFF3 keys, disjoint genes -
    unspliced and spliced, coding (engineered CDS) and rRNA / tRNA / ncRNA / misc_RNA with a product qualifier - and
    sometimes a feature collection."""
    from bcv.gen import genes as GG

    glen = rng.choice([120, 300])
    seqname = rng.choice(["chr1", "chrX", "NC_000913.3"])
    genome = "".join(rng.choice("ACGT") for _ in range(glen))
    parent = {"mode": rng.choice(["chrom", "chrom", "chrom", "chrom", "chunk"]), "genome": genome, "seqname": seqname, "window": [0, glen],
              "alphabet": rng.choice(["NT_EXTENDED_GAPPED", "NT_STRICT"])}
    coll = GG.rand_collection_spec(random.Random(rng.getrandbits(64)), glen, ngenes=rng.randint(2, 4), nfcolls=rng.choice([0, 0, 1]), seqname=seqname,
                                   disjoint=True, qualifiers=False, max_exons=rng.choice([1, 1, 3]))
    coll["vcolls"] = []
    for g in coll["genes"]:
        coding = any(t.get("cds") for t in g["transcripts"])
        if coding:
            # the table writer treats a gene as coding or not as a whole: no non-coding isoforms in coding genes
            g["transcripts"] = [t for t in g["transcripts"] if t.get("cds")]
            g["gene_type"] = "protein_coding"
        if not coding:
            g["gene_type"] = rng.choice(["rRNA", "rRNA", "tRNA", "ncRNA", "misc_RNA", "lncRNA"])
        g["qualifiers"] = rng.choice([{}, {"note": ["n1"]}, {"db_xref": ["GeneID:12"], "gene_synonym": ["syn1", "syn2"]}])
        for t in g["transcripts"]:
            t["sequence_name"] = seqname
            if not t.get("cds"):
                t["transcript_type"] = g["gene_type"]
            q = {"note": ["tx note"]} if rng.random() < 0.3 else {}
            if rng.random() < 0.75:
                q["product"] = [rng.choice(RNA_PRODUCTS)] if not t.get("cds") else ["hypothetical_protein"]
            t["qualifiers"] = q
            if t.get("cds") and rng.random() < 0.8:
                engineer_cds(rng, parent, t)
    for fc in coll["fcolls"]:
        fc["qualifiers"] = {}
        for f in fc["features"]:
            f["qualifiers"] = rng.choice([{}, {"note": ["f"]}])
    coll["qualifiers"] = {}
    coll["name"] = "exportable"
    return {"kind": "coll", "spec": coll, "parent": parent, "seqname": seqname, "hostile": False, "cut": "whole", "flavour": "exportable"}


def engineer_cds(rng, parent, t):
    """Rewrite the chromosome under a CDS so that translation succeeds and its memoised variants differ: unambiguous bases,
    an (alternative) start codon first, an in-frame stop in the middle, maybe a stop at the end."""
    from bcv.models import framemodel as FM
    from bcv.models import seqmodel as SM

    strand = t["strand"]
    cod = FM.codons([tuple(b) for b in t["cds"]], strand, [int(f) for f in t["frames"]])
    if len(cod) < 3:
        return
    g = list(parent["genome"])

    def put(pos, text):
        for p, ch in zip(pos, text):
            g[p] = SM.COMP[ch] if strand == "-" else ch

    for c in cod:
        put(c, "".join(rng.choice("ACGT") for _ in range(3)))
    put(cod[0], rng.choice(["ATG", "ATG", "CTG", "TTG", "GTG", "ATA", "GCC"]))
    if rng.random() < 0.7:
        put(cod[rng.randrange(1, len(cod) - 1)], rng.choice(["TAA", "TAG", "TGA"]))
    put(cod[-1], rng.choice(["TAA", "TGA", "TAG", "GCA"]))
    parent["genome"] = "".join(g)


RESERVED = {"gene": ["gene_id", "gene_name", "gene_biotype", "locus_tag"], "tx": ["transcript_id", "transcript_name", "transcript_biotype", "protein_id"],
            "cds": ["protein_id", "product"], "feat": ["feature_name", "feature_id", "feature_type"],
            "fcoll": ["feature_collection_id", "feature_collection_name", "locus_tag", "feature_type"]}


def add_reserved_qualifiers(rng, spec, root):
    """Some objects carry user qualifiers under the very keys the exporters add themselves (gene_id, transcript_id, ...)
    and under keys shared with their parents / children: that is where an aliased value set shows."""
    def deco(d, kind):
        if "qualifiers" not in d or rng.random() < 0.45:
            return
        q = dict(d.get("qualifiers") or {})
        for k in rng.sample(RESERVED[kind], rng.randint(1, 2)):
            q[k] = ["user-" + k, rng.choice(["x", "y", 7])]
        if rng.random() < 0.7:
            q["shared"] = [kind + "-value"]
        d["qualifiers"] = q

    if root in ("tx", "cds"):
        deco(spec, "tx")
    elif root == "feat":
        deco(spec, "feat")
    elif root == "gene":
        deco(spec, "gene")
        for t in spec["transcripts"]:
            deco(t, "tx")
    elif root == "fcoll":
        deco(spec, "fcoll")
        for f in spec["features"]:
            deco(f, "feat")
    elif root == "coll":
        for g in spec.get("genes", []):
            deco(g, "gene")
            for t in g["transcripts"]:
                deco(t, "tx")
        for fc in spec.get("fcolls", []):
            deco(fc, "fcoll")
            for f in fc["features"]:
                deco(f, "feat")


# --------------------------------------------------------------------------------------------------------------
# builders: case -> {path: object}
# --------------------------------------------------------------------------------------------------------------
def _loc_parent(case):
    from inscripta.biocantor.io.parser import seq_chunk_to_parent
    from inscripta.biocantor.parent import Parent
    from inscripta.biocantor.sequence import Sequence, Alphabet

    m = case["pmode"]
    name = case.get("seqname", "chr1")
    if m == "none":
        return None
    if m == "id":
        return Parent(id=name, sequence_type="chromosome")
    if m == "seq":
        return Parent(id=name, sequence=Sequence(case["genome"], Alphabet[case["alphabet"]], type="chromosome"))
    if m == "chunk":
        cs, ce = case["window"]
        return seq_chunk_to_parent(case["genome"][cs:ce], name, cs, ce, alphabet=Alphabet[case["alphabet"]])
    raise ValueError(m)


def build_targets(case):
    """Real objects for a case.  Returns an ordered dict {path: object}; '.' is the root."""
    k = case["kind"]
    out = {}
    if k == "loc":
        p = _loc_parent(case)
        out["."] = G.build([tuple(b) for b in case["blocks"]], case["strand"], parent=p, force_compound=case["compound"])
        out["other"] = G.build([tuple(b) for b in case["other"]], case["ostrand"], parent=p, force_compound=case["ocompound"])
        lp = out["."].parent
        if lp is not None:
            out["parent"] = lp
            if lp.sequence is not None:
                out["parent.sequence"] = lp.sequence
        return out
    if k == "seq":
        from inscripta.biocantor.location.location_impl import SingleInterval
        from inscripta.biocantor.parent import Parent
        from inscripta.biocantor.sequence import Sequence, Alphabet

        m = case["pmode"]
        n = len(case["data"])
        if m == "none":
            par = None
        elif m == "id":
            par = Parent(id=case["seqname"])
        else:
            par = Parent(id=case["seqname"], sequence_type="chromosome",
                         location=SingleInterval(case["pstart"], case["pstart"] + n, G.strand_of(m[-1])))
        out["."] = Sequence(case["data"], Alphabet[case["alphabet"]], id=case["id"], type=case["type"], parent=par)
        out["other"] = Sequence(case["other"], Alphabet[case["alphabet"]])
        if out["."].parent is not None:
            out["parent"] = out["."].parent
        return out
    if k == "codon":
        from inscripta.biocantor.gene.codon import Codon

        out["."] = Codon(case["codon"])
        return out
    parent = S.build_parent(case["parent"])
    spec = case["spec"]
    seqname = case.get("seqname")
    if k == "tx":
        root = S.build_transcript(spec, parent)
    elif k == "cds":
        root = S.build_cds(spec, parent)
    elif k == "feat":
        root = S.build_feature(spec, parent, seqname=seqname)
    elif k == "var":
        root = S.build_variant(spec, parent)
    elif k == "gene":
        root = S.build_gene(spec, parent, seqname=seqname)
    elif k == "fcoll":
        root = S.build_fcoll(spec, parent, seqname=seqname)
    elif k == "vcoll":
        root = S.build_vcoll(spec, parent, seqname=seqname)
    elif k == "coll":
        root = S.build_collection(spec, parent)
    else:
        raise ValueError(k)
    _walk(root, ".", out)
    return out


def _walk(obj, path, out):
    out[path] = obj
    pre = "" if path == "." else path + "."
    for attr, tag in (("genes", "g"), ("feature_collections", "f"), ("variant_collections", "v"), ("transcripts", "t"),
                      ("feature_intervals", "ft"), ("variant_intervals", "var")):
        kids = obj.__dict__.get(attr) if hasattr(obj, "__dict__") else None
        if isinstance(kids, list):
            for i, kid in enumerate(kids):
                _walk(kid, f"{pre}{tag}{i}", out)
    cds = obj.__dict__.get("cds") if hasattr(obj, "__dict__") else None
    if cds is not None and type(obj).__name__ == "TranscriptInterval":
        out[pre + "cds"] = cds


def subspecs(case):
    """{path: (kind, spec)} parallel to build_targets for the gene layer (used by the spec-anchor monitor)."""
    k, spec = case["kind"], case.get("spec")
    out = {}

    def tx(t, path):
        out[path] = ("tx", t)
        if t.get("cds"):
            out[("" if path == "." else path + ".") + "cds"] = ("cds", t)

    def pre(path):
        return "" if path == "." else path + "."

    def gene(g, path):
        out[path] = ("gene", g)
        for j, t in enumerate(g["transcripts"]):
            tx(t, f"{pre(path)}t{j}")

    def fcoll(fc, path):
        out[path] = ("fcoll", fc)
        for j, f in enumerate(fc["features"]):
            out[f"{pre(path)}ft{j}"] = ("feat", f)

    def vcoll(vc, path):
        out[path] = ("vcoll", vc)
        # the constructor sorts variants by start: positions are matched by content in the anchor monitor, not by index

    if k == "tx":
        tx(spec, ".")
    elif k == "cds":
        out["."] = ("cds", spec)
    elif k == "feat":
        out["."] = ("feat", spec)
    elif k == "var":
        out["."] = ("var", spec)
    elif k == "gene":
        gene(spec, ".")
    elif k == "fcoll":
        fcoll(spec, ".")
    elif k == "vcoll":
        vcoll(spec, ".")
    elif k == "coll":
        out["."] = ("coll", spec)
        for i, g in enumerate(spec.get("genes", [])):
            gene(g, f"g{i}")
        for i, fc in enumerate(spec.get("fcolls", [])):
            fcoll(fc, f"f{i}")
        for i, vc in enumerate(spec.get("vcolls", [])):
            vcoll(vc, f"v{i}")
    return out


# --------------------------------------------------------------------------------------------------------------
# look-alikes
# --------------------------------------------------------------------------------------------------------------
def _shift_blocks(bs, d):
    return [[s + d, e + d] for s, e in bs]


def _map_intervals(spec, kind, fn):
    """Apply fn(dict, key-of-block-list) to every block list below a gene-layer spec."""
    if kind in ("tx", "cds"):
        fn(spec, "exons")
        if spec.get("cds"):
            fn(spec, "cds")
    elif kind == "feat":
        fn(spec, "blocks")
    elif kind == "gene":
        for t in spec["transcripts"]:
            _map_intervals(t, "tx", fn)
    elif kind == "fcoll":
        for f in spec["features"]:
            _map_intervals(f, "feat", fn)
    elif kind == "coll":
        for g in spec.get("genes", []):
            _map_intervals(g, "gene", fn)
        for fc in spec.get("fcolls", []):
            _map_intervals(fc, "fcoll", fn)


def lookalike(case, how, rng):
    """A perturbed copy of the case that collides with the original in identifiers / parent ids / cache keys:
    'same' (identical spec: shares cached Parent instances), 'shift' (all coordinates +1), 'strand' (strands flipped),
    'genome' (same parent id and length, other letters)."""
    c = copy.deepcopy(case)
    k = c["kind"]
    if how == "same":
        return c
    if how == "genome":
        key = "genome" if k == "loc" else None
        if k == "loc":
            c["genome"] = c["genome"][::-1]
        elif k == "seq":
            c["data"] = c["data"][::-1]
        elif k != "codon":
            c["parent"]["genome"] = c["parent"]["genome"][::-1]
        del key
        return c
    if how == "shift":
        if k == "loc":
            c["blocks"] = _shift_blocks(c["blocks"], 1)
        elif k == "seq":
            c["pstart"] += 1
        elif k in ("var",):
            c["spec"]["start"] += 1
            c["spec"]["end"] += 1
        elif k == "vcoll":
            for v in c["spec"]["variants"]:
                v["start"] += 1
                v["end"] += 1
        elif k != "codon":
            _map_intervals(c["spec"], k, lambda d, key: d.__setitem__(key, _shift_blocks(d[key], 1)))
        return c
    if how == "strand":
        flip = {"+": "-", "-": "+", ".": "+"}
        if k == "loc":
            c["strand"] = flip[c["strand"]]
        elif k == "seq":
            c["pmode"] = {"loc+": "loc-", "loc-": "loc+"}.get(c["pmode"], c["pmode"])
        elif k in ("tx", "cds", "feat"):
            c["spec"]["strand"] = flip[c["spec"]["strand"]]
            if c["spec"].get("frames"):
                c["spec"]["frames"] = list(reversed(c["spec"]["frames"]))
        elif k == "gene":
            for t in c["spec"]["transcripts"]:
                t["strand"] = flip[t["strand"]]
        elif k == "fcoll":
            for f in c["spec"]["features"]:
                f["strand"] = flip[f["strand"]]
        return c
    raise ValueError(how)


def lookalike_parents(case):
    """Parents whose constructor arguments resemble those of the case's own parents (same id, enum vs plain string type,
    same id with another sequence / alphabet / location class): candidates for collisions in the process-wide cache."""
    from inscripta.biocantor.location.location_impl import SingleInterval, CompoundInterval
    from inscripta.biocantor.location.strand import Strand
    from inscripta.biocantor.parent import Parent, SequenceType
    from inscripta.biocantor.sequence import Sequence, Alphabet

    name = case.get("seqname") or (case.get("parent") or {}).get("seqname") or "chr1"
    genome = case.get("genome") or (case.get("parent") or {}).get("genome") or "ACGTACGTAC"
    alpha = case.get("alphabet") or (case.get("parent") or {}).get("alphabet") or "NT_EXTENDED_GAPPED"
    n = len(genome)
    makers = [
        lambda: Parent(id=name),
        lambda: Parent(id=name, sequence_type="chromosome"),
        lambda: Parent(id=name, sequence_type=SequenceType.CHROMOSOME),
        lambda: Parent(sequence_type=SequenceType.CHROMOSOME, id=name),
        lambda: Parent(id=name, sequence_type="sequence_chunk"),
        lambda: Parent(id=name, sequence_type=SequenceType.SEQUENCE_CHUNK),
        lambda: Parent(id=name, strand=Strand.PLUS),
        lambda: Parent(id=name, strand=Strand.MINUS, sequence_type="chromosome"),
        lambda: Parent(id=name, location=SingleInterval(0, min(5, n), Strand.PLUS)),
        lambda: Parent(id=name, location=CompoundInterval([0], [min(5, n)], Strand.PLUS)),
        lambda: Parent(id=name, location=SingleInterval(0, min(5, n), Strand.MINUS), sequence_type=SequenceType.CHROMOSOME),
        lambda: Parent(id=name, sequence=Sequence(genome[::-1], Alphabet[alpha], type=SequenceType.CHROMOSOME)),
        lambda: Parent(id=name, sequence=Sequence(genome, Alphabet[alpha], type="chromosome")),
        lambda: Parent(id=name, sequence=Sequence(genome, Alphabet[alpha], type=SequenceType.CHROMOSOME)),
        lambda: Parent(id=name, sequence=Sequence(genome, Alphabet[alpha], id=name, type=SequenceType.CHROMOSOME)),
        lambda: Parent(sequence=Sequence(genome, Alphabet[alpha], id=name, type=SequenceType.CHROMOSOME)),
        lambda: Parent(id=name, sequence=Sequence(genome.upper(), Alphabet.NT_EXTENDED_GAPPED, type=SequenceType.CHROMOSOME)),
        lambda: Parent(id=name, sequence=Sequence(genome.lower(), Alphabet.NT_EXTENDED_GAPPED, type=SequenceType.CHROMOSOME)),
        lambda: Parent(id=name + ":0-" + str(n), sequence_type=SequenceType.SEQUENCE_CHUNK),
        lambda: Parent(id=name, parent=Parent(id=name, sequence_type=SequenceType.CHROMOSOME)),
        lambda: Parent(id=name, parent=name),
    ]
    return makers


# --------------------------------------------------------------------------------------------------------------
# accessor catalogue
# --------------------------------------------------------------------------------------------------------------
class Accessor:
    """One read-only question.  fn(obj, args) -> answer; mkargs() -> dict of fresh mutable arguments (operands too)."""
    __slots__ = ("name", "fn", "mkargs", "hot")

    def __init__(self, name, fn, mkargs=None, hot=False):
        self.name = name
        self.fn = fn
        self.mkargs = mkargs
        self.hot = hot

    def __repr__(self):
        return f"<acc {self.name}>"


DENY = {
    "scan_codon_locations": "deprecated: emits DeprecationWarning",
    "to_vcf": "not implemented upstream (raises NotImplementedError unconditionally)",
}

_AUTO = {}


def _kind_of(cls, name):
    st = inspect.getattr_static(cls, name)
    w = st
    rope_property = False
    for _ in range(6):
        tn = type(w).__name__
        if "PropertyRope" in tn:
            rope_property = True
        if isinstance(w, property):
            return "get"
        if isinstance(w, (staticmethod, classmethod)):
            return None
        if inspect.isfunction(w):
            if rope_property:
                return "get"
            try:
                sig = inspect.signature(w)
            except (TypeError, ValueError):
                return None
            params = list(sig.parameters.values())[1:]
            req = [p for p in params if p.default is p.empty and p.kind in (p.POSITIONAL_ONLY, p.POSITIONAL_OR_KEYWORD, p.KEYWORD_ONLY)]
            return "call" if not req else None
        if hasattr(w, "__wrapped__"):
            w = w.__wrapped__
            continue
        if tn in ("member_descriptor", "getset_descriptor"):
            return "get"
        if inspect.isclass(w) or callable(w):
            return None
        return "get"  # plain class attribute (frames, interval_type, sequence_name default ...)
    return None


def auto_catalogue(obj):
    """Public zero-argument questions of type(obj) found by inspection (methodtools wrappers unwrapped), plus the public
    instance attributes present on this object."""
    cls = type(obj)
    if cls not in _AUTO:
        acc = []
        for name in dir(cls):
            if name.startswith("_") or name in DENY:
                continue
            k = _kind_of(cls, name)
            if k == "get":
                acc.append((name, "get"))
            elif k == "call":
                acc.append((name, "call"))
        _AUTO[cls] = acc
    names = list(_AUTO[cls])
    seen = {n for n, _ in names}
    d = getattr(obj, "__dict__", None)
    if isinstance(d, dict):
        for name in sorted(d):
            if not name.startswith("_") and name not in seen and name not in DENY:
                names.append((name, "get"))
    out = []
    for name, k in names:
        if k == "get":
            out.append(Accessor(name, (lambda n: lambda o, a: getattr(o, n))(name)))
        else:
            out.append(Accessor(name + "()", (lambda n: lambda o, a: getattr(o, n)())(name)))
    return out


HOT = {"extract_sequence()", "chunk_relative_codon_locations", "chromosome_codon_locations", "has_valid_stop", "has_in_frame_stop", "translate()",
       "export_qualifiers()", "to_gff()", "qualifiers", "to_dict()", "chromosome_location", "get_cds_sequence()", "get_protein_sequence()",
       "num_codons", "num_chunk_relative_codons", "scan_codons()", "get_spliced_sequence()", "children", "blocks", "is_overlapping", "strand"}


def _pq():
    return {"pq": {"note": {"from-parent", "p2"}, "shared": {"parent-value"}, "gene_id": {"PG"}, "transcript_id": {"PT"}, "protein_id": {"PP"},
                   "feature_id": {"PF"}, "newkey": {"n1"}}}


def fixed_catalogue(obj, case, path, rebuild):
    """Curated fixed-argument questions for obj.  All argument values are plain data read off `obj` now (obj is a
    throw-away build), so the same call is made on the object under test and on its fresh twin.
    rebuild(path) -> a fresh build of the object at `path` (used for equality questions)."""
    from inscripta.biocantor.gene.codon import TranslationTable
    from inscripta.biocantor.location.location_impl import SingleInterval, CompoundInterval
    from inscripta.biocantor.location.strand import Strand

    cn = type(obj).__name__
    A = []

    def add(name, fn, mkargs=None, hot=False):
        A.append(Accessor(name, fn, mkargs, hot))

    add("hash", lambda o, a: hash(o))
    add("str", lambda o, a: str(o))
    add("repr", lambda o, a: repr(o))
    add("==fresh-twin", lambda o, a: (o == rebuild(path), rebuild(path) == o, o != rebuild(path)))
    if cn not in ("Codon", "Parent"):
        add("len", lambda o, a: len(o))

    if cn in ("SingleInterval", "CompoundInterval", "_EmptyLocation"):
        n = len(obj)
        st, en = (obj.start, obj.end) if cn != "_EmptyLocation" else (0, 0)
        other = lambda: rebuild("other")  # noqa: E731
        mk = lambda: {"other": rebuild("other")}  # noqa: E731
        for nm in ("union", "intersection", "minus", "union_preserve_overlaps", "contains", "has_overlap", "distance_to", "location_relative_to",
                   "parent_to_relative_location"):
            add(nm + "(other)", (lambda m: lambda o, a: getattr(o, m)(a["other"]))(nm), mk)
            add("other." + nm + "(self)", (lambda m: lambda o, a: getattr(a["other"], m)(o))(nm), mk)
        add("intersection(other,match_strand=False)", lambda o, a: o.intersection(a["other"], match_strand=False), mk)
        add("minus(other,match_strand=False)", lambda o, a: o.minus(a["other"], match_strand=False), mk)
        add("contains(other,full_span)", lambda o, a: o.contains(a["other"], False, True), mk)
        add("has_overlap(other,ms,fs)", lambda o, a: o.has_overlap(a["other"], True, True), mk)
        add("lt(other)", lambda o, a: (o < a["other"], a["other"] < o) if type(o).__name__ == "SingleInterval" else None, mk)
        add("relative_to_parent_pos(0)", lambda o, a: o.relative_to_parent_pos(0))
        add("relative_to_parent_pos(last)", lambda o, a: o.relative_to_parent_pos(max(0, n - 1)))
        add("parent_to_relative_pos(start)", lambda o, a: o.parent_to_relative_pos(st))
        add("parent_to_relative_pos(end-1)", lambda o, a: o.parent_to_relative_pos(en - 1))
        add("relative_interval_to_parent_location(all,+)", lambda o, a: o.relative_interval_to_parent_location(0, n, Strand.PLUS))
        add("relative_interval_to_parent_location(part,-)", lambda o, a: o.relative_interval_to_parent_location(n // 3, max(n // 3, 2 * n // 3), Strand.MINUS))
        add("scan_windows(3,3)", lambda o, a: o.scan_windows(3, 3))
        add("scan_windows(2,1,1)", lambda o, a: o.scan_windows(2, 1, 1))
        add("extend_absolute(1,2)", lambda o, a: o.extend_absolute(1, 2))
        add("extend_relative(2,1)", lambda o, a: o.extend_relative(2, 1))
        add("shift_position(1)", lambda o, a: o.shift_position(1))
        add("reset_strand(-)", lambda o, a: o.reset_strand(Strand.MINUS), hot=True)
        add("reset_strand(+)", lambda o, a: o.reset_strand(Strand.PLUS), hot=True)
        add("reverse_strand().blocks", lambda o, a: o.reverse_strand().blocks, hot=True)
        add("reset_strand(-).extract_sequence", lambda o, a: o.reset_strand(Strand.MINUS).extract_sequence(), hot=True)
        add("reset_parent(None)", lambda o, a: o.reset_parent(None))
        add("reset_parent(other.parent)", lambda o, a: o.reset_parent(a["other"].parent), mk)
        for t in ("chromosome", "sequence_chunk"):
            add(f"has_ancestor_of_type({t})", (lambda t_: lambda o, a: o.has_ancestor_of_type(t_))(t))
            add(f"first_ancestor_of_type({t})", (lambda t_: lambda o, a: o.first_ancestor_of_type(t_))(t))
            add(f"lift_over_to_first_ancestor_of_type({t})", (lambda t_: lambda o, a: o.lift_over_to_first_ancestor_of_type(t_))(t))
        add("has_ancestor_sequence(parent.sequence)", lambda o, a: o.has_ancestor_sequence(o.parent.sequence))
        add("lift_over_to_sequence(parent.sequence)", lambda o, a: o.lift_over_to_sequence(o.parent.sequence))
        add("blocks[*].extract_sequence", lambda o, a: [b.extract_sequence() for b in o.blocks], hot=True)
        del other

    elif cn == "Sequence":
        mk = lambda: {"other": rebuild("other")}  # noqa: E731
        add("[0:2]", lambda o, a: o[0:2])
        add("[1:]", lambda o, a: o[1:len(o)])
        add("[0]", lambda o, a: o[0])
        add("reverse_complement(new_id)", lambda o, a: o.reverse_complement(new_id="rc", new_type="t"))
        add("append(other,data_only)", lambda o, a: o.append(a["other"], new_id="x", data_only=True), mk)
        add("append(other)", lambda o, a: o.append(a["other"]), mk)
        add("other.append(self,data_only)", lambda o, a: a["other"].append(o, data_only=True), mk)
        add("to_fasta(7)", lambda o, a: o.to_fasta(7))
        for t in ("chromosome", "mytype"):
            add(f"has_ancestor_of_type({t})", (lambda t_: lambda o, a: o.has_ancestor_of_type(t_))(t))
            add(f"first_ancestor_of_type({t})", (lambda t_: lambda o, a: o.first_ancestor_of_type(t_))(t))

    elif cn == "Parent":
        add("equals_except_location(twin)", lambda o, a: o.equals_except_location(rebuild(path)))
        add("reset_location(None)", lambda o, a: o.reset_location(None))
        add("reset_location(0-1)", lambda o, a: o.reset_location(SingleInterval(0, 1, Strand.PLUS)))
        for t in ("chromosome", "sequence_chunk"):
            add(f"has_ancestor_of_type({t})", (lambda t_: lambda o, a: o.has_ancestor_of_type(t_))(t))
            add(f"first_ancestor_of_type({t})", (lambda t_: lambda o, a: o.first_ancestor_of_type(t_))(t))
        add("has_ancestor_sequence(own)", lambda o, a: o.has_ancestor_sequence(o.sequence))

    elif cn == "Codon":
        for tt in TranslationTable:
            add(f"is_start_codon_in_specific_translation_table({tt.name})", (lambda t_: lambda o, a: o.is_start_codon_in_specific_translation_table(t_))(tt))
        add("translate(strict=False)", lambda o, a: o.translate(strict=False))
        add("Codon(str)==self", lambda o, a: type(o)(str(o)) is o)
        add("Codon(lower)==self", lambda o, a: type(o)(str(o).lower()) is o)

    else:
        A.extend(_interval_catalogue(obj, cn, case, path, rebuild))
    return A


def _windows(lo, hi):
    """Deterministic windows over [lo, hi): a few named ones and a storm of 24 distinct ones (> the 20 memo slots)."""
    L = max(1, hi - lo)
    named = [(lo, hi), (lo, lo + max(1, L // 2)), (lo + L // 3, hi), (lo + L // 4, lo + max(L // 4 + 1, 3 * L // 4)), (None, lo + max(1, 2 * L // 3)),
             (lo + L // 5, None)]
    storm = []
    k = 0
    while len(storm) < 24 and k < 400:
        s = lo + (k * 7) % L
        e = min(hi, s + 1 + (k * 5) % max(1, L - (s - lo)))
        if e > s and (s, e) not in storm:
            storm.append((s, e))
        k += 1
    return named, storm


def _variant_collection_for(obj, case):
    """A small VariantIntervalCollection (one SNV inside the first block, one 1-bp unpadded deletion inside the last block)
    on the same parent as the case: the argument of incorporate_variants."""
    from inscripta.biocantor.gene.variants import VariantInterval, VariantIntervalCollection

    bl = [(b.start, b.end) for b in obj.chromosome_location.blocks if b.end > b.start]
    if not bl:
        return None
    p1 = bl[0][0]
    p2 = bl[-1][1] - 1
    pspec = case["parent"]

    def mk():
        parent = S.build_parent(pspec)
        vs = [VariantInterval(p1, p1 + 1, "N", "SNV", parent_or_seq_chunk_parent=parent)]
        if p2 > p1 + 1:
            vs.append(VariantInterval(p2, p2 + 1, "", "deletion", parent_or_seq_chunk_parent=parent))
        return {"variants": VariantIntervalCollection(vs, parent_or_seq_chunk_parent=parent)}

    return mk


def _interval_catalogue(obj, cn, case, path, rebuild):
    from inscripta.biocantor.gene.codon import TranslationTable
    from inscripta.biocantor.location.location_impl import SingleInterval
    from inscripta.biocantor.location.strand import Strand

    A = []

    def add(name, fn, mkargs=None, hot=False):
        A.append(Accessor(name, fn, mkargs, hot))

    lo = getattr(obj, "start", None)
    hi = getattr(obj, "end", None)
    if not isinstance(lo, int) or not isinstance(hi, int):
        lo, hi = 0, 1
    mid = (lo + hi) // 2
    pspec = case["parent"]
    n = None
    try:
        n = len(obj)
    except Exception:  # noqa: BLE001
        n = 1
    leaf = cn in ("TranscriptInterval", "FeatureInterval", "CDSInterval", "VariantInterval")

    for t in ("chromosome", "sequence_chunk"):
        add(f"has_ancestor_of_type({t})", (lambda t_: lambda o, a: o.has_ancestor_of_type(t_))(t))
        add(f"first_ancestor_of_type({t})", (lambda t_: lambda o, a: o.first_ancestor_of_type(t_))(t))
        add(f"lift_over_to_first_ancestor_of_type({t})", (lambda t_: lambda o, a: o.lift_over_to_first_ancestor_of_type(t_))(t))
    add("to_dict(chunk-relative)", lambda o, a: o.to_dict(chromosome_relative_coordinates=False))
    add("to_gff(chunk-relative)", lambda o, a: o.to_gff(chromosome_relative_coordinates=False))
    add("from_dict(to_dict)", lambda o, a: type(o).from_dict(o.to_dict()))
    add("from_dict(to_dict,parent)", lambda o, a: type(o).from_dict(o.to_dict(), a["parent"]), lambda: {"parent": S.build_parent(pspec)})

    def newchunk():
        g = pspec.get("genome") or ""
        cs, ce = max(0, lo - 2), min(len(g), hi + 3)
        from inscripta.biocantor.io.parser import seq_chunk_to_parent
        from inscripta.biocantor.sequence.alphabet import Alphabet

        return {"parent": seq_chunk_to_parent(g[cs:ce], pspec.get("seqname", "chr1"), cs, ce, alphabet=Alphabet[pspec.get("alphabet", "NT_EXTENDED_GAPPED")])}

    if pspec.get("mode") != "none":
        add("liftover_to_parent_or_seq_chunk_parent(new-chunk)", lambda o, a: o.liftover_to_parent_or_seq_chunk_parent(a["parent"]), newchunk)
        add("liftover_to_parent_or_seq_chunk_parent(own)", lambda o, a: o.liftover_to_parent_or_seq_chunk_parent(a["parent"]),
            lambda: {"parent": S.build_parent(pspec)})

    if cn not in ("AnnotationCollection", "VariantInterval", "VariantIntervalCollection"):
        mkv = _variant_collection_for(obj, case)
        if mkv is not None:
            add("incorporate_variants(vcoll)", lambda o, a: o.incorporate_variants(a["variants"]), mkv)
            add("incorporate_variants(variant)", lambda o, a: o.incorporate_variants(a["variants"].variant_intervals[0]), mkv)

    if leaf:
        add("export_qualifiers(pq)", lambda o, a: o.export_qualifiers(a["pq"]), _pq, hot=True)
        if cn != "VariantInterval":  # VariantInterval.to_gff / to_bed12 and CDSInterval.to_bed12 are not implemented upstream
            add("to_gff(P,pq)", lambda o, a: o.to_gff(parent="P1", parent_qualifiers=a["pq"]), _pq, hot=True)
            add("to_gff(P,pq,chunk-relative)", lambda o, a: o.to_gff("P1", a["pq"], chromosome_relative_coordinates=False), _pq)
        if cn in ("TranscriptInterval", "FeatureInterval"):
            add("to_bed12(score,guid)", lambda o, a: o.to_bed12(score=5, name="guid"))
            add("to_bed12(chunk-relative)", lambda o, a: o.to_bed12(chromosome_relative_coordinates=False))
        add("sequence_pos_to_feature(start)", lambda o, a: o.sequence_pos_to_feature(lo))
        add("sequence_pos_to_feature(end-1)", lambda o, a: o.sequence_pos_to_feature(hi - 1))
        add("feature_pos_to_sequence(0)", lambda o, a: o.feature_pos_to_sequence(0))
        add("feature_pos_to_sequence(last)", lambda o, a: o.feature_pos_to_sequence(max(0, n - 1)))
        add("feature_interval_to_sequence(0,n,+)", lambda o, a: o.feature_interval_to_sequence(0, n, Strand.PLUS))
        add("feature_interval_to_sequence(part,-)", lambda o, a: o.feature_interval_to_sequence(n // 3, max(n // 3, 2 * n // 3), Strand.MINUS))
        add("sequence_interval_to_feature(span,+)", lambda o, a: o.sequence_interval_to_feature(lo, hi, Strand.PLUS))
        add("sequence_interval_to_feature(half,-)", lambda o, a: o.sequence_interval_to_feature(lo, max(lo + 1, mid), Strand.MINUS))
        add("feature_pos_to_chunk_relative(0)", lambda o, a: o.feature_pos_to_chunk_relative(0))
        add("feature_interval_to_chunk_relative(0,2,+)", lambda o, a: o.feature_interval_to_chunk_relative(0, min(2, n), Strand.PLUS))
        add("chunk_relative_pos_to_feature(crs)", lambda o, a: o.chunk_relative_pos_to_feature(o.chunk_relative_start))
        add("chunk_relative_interval_to_feature(cr-span)", lambda o, a: o.chunk_relative_interval_to_feature(o.chunk_relative_start, o.chunk_relative_end, Strand.PLUS))
        add("chunk_relative_location.extract_sequence", lambda o, a: o.chunk_relative_location.extract_sequence(), hot=True)
        add("chromosome_location.reset_strand(-)", lambda o, a: o.chromosome_location.reset_strand(Strand.MINUS), hot=True)
        add("chunk_relative_location.reverse_strand", lambda o, a: o.chunk_relative_location.reverse_strand(), hot=True)
        add("chunk_relative_blocks[*].extract_sequence", lambda o, a: [b.extract_sequence() for b in o.chunk_relative_blocks])
    if cn in ("TranscriptInterval", "FeatureInterval"):
        try:
            cs, ce = obj.chunk_relative_start, obj.chunk_relative_end
        except Exception:  # noqa: BLE001 - e.g. an interval sliced away by its chunk
            cs, ce = 0, 1
        cm = (cs + ce) // 2
        add("intersect(left-half)", lambda o, a: o.intersect(a["loc"]),
            lambda: {"loc": SingleInterval(cs, max(cs + 1, cm), Strand.PLUS, parent=S.build_parent(pspec))})
        add("intersect(right-half,quals)", lambda o, a: o.intersect(a["loc"], new_qualifiers=a["q"]),
            lambda: {"loc": SingleInterval(cm, max(cm + 1, ce), Strand.MINUS, parent=S.build_parent(pspec)), "q": {"k": ["v", "w"], "note": ["n"]}})

    named, storm = _windows(lo, hi)
    if cn == "CDSInterval":
        add("translate(True)", lambda o, a: o.translate(True), hot=True)
        add("translate(table=PROKARYOTE)", lambda o, a: o.translate(translation_table=TranslationTable.PROKARYOTE))
        add("translate(False,STANDARD)", lambda o, a: o.translate(False, TranslationTable.STANDARD))
        add("translate(strict=False)", lambda o, a: o.translate(strict=False))
        add("translate x3 tables", lambda o, a: [o.translate(translation_table=t) for t in TranslationTable] + [o.translate(True)], hot=True)
        add("has_start_codon_in_specific_translation_table(PROKARYOTE)", lambda o, a: o.has_start_codon_in_specific_translation_table(TranslationTable.PROKARYOTE))
        add("scan_codons(True)", lambda o, a: o.scan_codons(True))
        add("extract_sequence()[-3:]", lambda o, a: o.extract_sequence()[-3:], hot=True)
        add("codon-sequences", lambda o, a: [c.extract_sequence() for c in o.chunk_relative_codon_locations], hot=True)
        for i, (ws, we) in enumerate(named):
            add(f"scan_chromosome_codon_locations(w{i})", (lambda s, e: lambda o, a: o.scan_chromosome_codon_locations(s, e))(ws, we), hot=True)
            add(f"scan_chunk_relative_codon_locations(w{i})", (lambda s, e: lambda o, a: o.scan_chunk_relative_codon_locations(s, e))(ws, we), hot=True)
            add(f"scan_chromosome_codon_locations(w{i},expand)", (lambda s, e: lambda o, a: o.scan_chromosome_codon_locations(s, e, True))(ws, we))
        add("scan_chromosome_codon_locations(w1;w2;w1)",
            lambda o, a: [list(o.scan_chromosome_codon_locations(*named[1])), list(o.scan_chromosome_codon_locations(*named[2])),
                          list(o.scan_chromosome_codon_locations(*named[1]))], hot=True)
        add("scan_chunk_relative_codon_locations(w2;w1)",
            lambda o, a: [list(o.scan_chunk_relative_codon_locations(*named[2])), list(o.scan_chunk_relative_codon_locations(*named[1]))], hot=True)
        add("scan_chromosome_codon_locations(storm24)", lambda o, a: [_safe_list(o.scan_chromosome_codon_locations, s, e) for s, e in storm])
        add("scan_chunk_relative_codon_locations(storm24)", lambda o, a: [_safe_list(o.scan_chunk_relative_codon_locations, s, e) for s, e in storm])
        add("sequence_pos_to_cds(start)", lambda o, a: o.sequence_pos_to_cds(lo))
        add("cds_pos_to_sequence(0)", lambda o, a: o.cds_pos_to_sequence(0))
        add("cds_pos_to_chunk_relative(0)", lambda o, a: o.cds_pos_to_chunk_relative(0))
        add("cds_interval_to_sequence(0,3,+)", lambda o, a: o.cds_interval_to_sequence(0, min(3, n), Strand.PLUS))
        add("cds_interval_to_chunk_relative(0,3,+)", lambda o, a: o.cds_interval_to_chunk_relative(0, min(3, n), Strand.PLUS))
        add("sequence_interval_to_cds(span,+)", lambda o, a: o.sequence_interval_to_cds(lo, hi, Strand.PLUS))
        add("chunk_relative_interval_to_cds(cr-span)", lambda o, a: o.chunk_relative_interval_to_cds(o.chunk_relative_start, o.chunk_relative_end, Strand.PLUS))
        add("chunk_relative_pos_to_cds(crs)", lambda o, a: o.chunk_relative_pos_to_cds(o.chunk_relative_start))
        add("sequence_pos_to_amino_acid(start)", lambda o, a: o.sequence_pos_to_amino_acid(lo))
        add("sequence_pos_to_amino_acid(end-1)", lambda o, a: o.sequence_pos_to_amino_acid(hi - 1))
        add("to_gff(no-raise)", lambda o, a: o.to_gff(raise_on_reserved_attributes=False))
    if cn == "TranscriptInterval":
        add("get_protein_sequence(True)", lambda o, a: o.get_protein_sequence(True), hot=True)
        add("get_protein_sequence(table=PROKARYOTE)", lambda o, a: o.get_protein_sequence(translation_table=TranslationTable.PROKARYOTE))
        add("get_protein_sequence x3", lambda o, a: [o.get_protein_sequence(translation_table=t) for t in TranslationTable] + [o.get_protein_sequence(True)])
        for nm in ("sequence_pos_to_transcript", "sequence_pos_to_cds"):
            add(nm + "(start)", (lambda m: lambda o, a: getattr(o, m)(lo))(nm))
            add(nm + "(end-1)", (lambda m: lambda o, a: getattr(o, m)(hi - 1))(nm))
        for nm in ("transcript_pos_to_sequence", "transcript_pos_to_chunk_relative", "cds_pos_to_sequence", "cds_pos_to_chunk_relative", "cds_pos_to_transcript",
                   "transcript_pos_to_cds"):
            add(nm + "(0)", (lambda m: lambda o, a: getattr(o, m)(0))(nm))
        for nm in ("transcript_interval_to_sequence", "transcript_interval_to_chunk_relative", "cds_interval_to_sequence", "cds_interval_to_chunk_relative"):
            add(nm + "(0,2,+)", (lambda m: lambda o, a: getattr(o, m)(0, min(2, n), Strand.PLUS))(nm))
        for nm in ("sequence_interval_to_transcript", "sequence_interval_to_cds"):
            add(nm + "(span,+)", (lambda m: lambda o, a: getattr(o, m)(lo, hi, Strand.PLUS))(nm))
        add("chunk_relative_pos_to_transcript(crs)", lambda o, a: o.chunk_relative_pos_to_transcript(o.chunk_relative_start))
        add("to_gff(no-raise)", lambda o, a: o.to_gff(raise_on_reserved_attributes=False))
        add("to_bed12(name=transcript_id)", lambda o, a: o.to_bed12(name="transcript_id"))
    if cn in ("GeneInterval", "FeatureIntervalCollection", "VariantIntervalCollection"):
        kids = list(obj.iter_children())
        g0 = kids[0].guid if kids else None
        gall = [k.guid for k in kids]
        add("query_by_guids(first)", lambda o, a: o.query_by_guids(g0))
        add("query_by_guids(all)", lambda o, a: o.query_by_guids(list(gall)))
        add("query_by_guids([])", lambda o, a: o.query_by_guids([]))
        add("guid_map", lambda o, a: o.guid_map)
        add("children[*].qualifiers", lambda o, a: [k.qualifiers for k in o.iter_children()], hot=True)
        add("children[*].to_dict", lambda o, a: [k.to_dict() for k in o.iter_children()], hot=True)
        if cn != "VariantIntervalCollection":
            add("to_gff(no-raise)", lambda o, a: o.to_gff(raise_on_reserved_attributes=False), hot=True)
            add("children[*].export_qualifiers(pq)", lambda o, a: [k.export_qualifiers(a["pq"]) for k in o.iter_children()], _pq, hot=True)
    if cn in ("VariantInterval", "VariantIntervalCollection"):
        add("lift_over_location(span)", lambda o, a: o.lift_over_location(a["loc"]),
            lambda: {"loc": SingleInterval(max(0, lo - 1), hi + 1, Strand.PLUS, parent=S.build_parent(pspec))})
        add("lift_over_location(own)", lambda o, a: o.lift_over_location(o.chromosome_location))
    if cn == "AnnotationCollection":
        kids = list(obj.iter_children())
        gall = [k.guid for k in kids]
        sub = [gk.guid for k in kids for gk in k.iter_children()]
        ids = sorted({str(i) for k in kids for i in k.identifiers if isinstance(i, str)})
        qn, qs = _windows(lo, hi)
        for i, (ws, we) in enumerate(qn[:5]):
            add(f"query_by_position(w{i})", (lambda s, e: lambda o, a: o.query_by_position(s, e))(ws, we), hot=True)
            add(f"query_by_position(w{i},overlap)", (lambda s, e: lambda o, a: o.query_by_position(s, e, completely_within=False))(ws, we))
        add("query_by_position(w1;w2;w1)", lambda o, a: [o.query_by_position(*qn[1]), o.query_by_position(*qn[2]), o.query_by_position(*qn[1])], hot=True)
        add("query_by_position(w2,overlap;w2)", lambda o, a: [o.query_by_position(*qn[2], completely_within=False), o.query_by_position(*qn[2])], hot=True)
        add("query_by_position(coding_only)", lambda o, a: o.query_by_position(coding_only=True))
        add("query_by_position(w3,overlap,expand)", lambda o, a: o.query_by_position(*qn[3], completely_within=False, expand_location_to_children=True))
        add("query_by_guids(all)", lambda o, a: o.query_by_guids(list(gall)))
        add("query_by_guids(first)", lambda o, a: o.query_by_guids(gall[0]) if gall else None)
        add("query_by_guids([])", lambda o, a: o.query_by_guids([]))
        add("query_by_interval_guids(all)", lambda o, a: o.query_by_interval_guids(list(sub)))
        add("query_by_interval_guids(first)", lambda o, a: o.query_by_interval_guids(sub[0]) if sub else None)
        add("query_by_transcript_interval_guids(all)", lambda o, a: o.query_by_transcript_interval_guids(list(sub)))
        add("query_by_feature_interval_guids(all)", lambda o, a: o.query_by_feature_interval_guids(list(sub)))
        add("query_by_feature_identifiers(all)", lambda o, a: o.query_by_feature_identifiers(list(ids)))
        add("query_by_feature_identifiers(first)", lambda o, a: o.query_by_feature_identifiers(ids[0]) if ids else None)
        for t in ("feature", "transcript", "variant", "gene"):
            add(f"get_children_by_type({t})", (lambda t_: lambda o, a: o.get_children_by_type(t_))(t))
        add("to_dict(export_parent)", lambda o, a: o.to_dict(export_parent=True))
        add("to_gff(no-raise)", lambda o, a: o.to_gff(raise_on_reserved_attributes=False), hot=True)
        for nm, fn in EXPORTERS.items():
            add(nm, (lambda f: lambda o, a: f(o))(fn), hot=True)
            add(nm + " x2", (lambda f: lambda o, a: [f(o), f(o)])(fn), hot=True)
        add("pickle-roundtrip", lambda o, a: pickle.loads(pickle.dumps(o)))
        add("schema-load(to_dict)", lambda o, a: _schema_roundtrip(o))
        add("guid_map", lambda o, a: o.guid_map)
        add("children[*].to_dict", lambda o, a: [k.to_dict() for k in o.iter_children()], hot=True)
        add("grandchildren[*].qualifiers", lambda o, a: [gk.qualifiers for k in o.iter_children() for gk in k.iter_children()], hot=True)
        mkv = _variant_collection_for(obj, case) if kids and hasattr(obj, "start") else None
        if mkv is not None:
            add("incorporate_variants(vcoll)", lambda o, a: o.incorporate_variants(a["variants"]), mkv)
    return A


def _export(which, **kw):
    """File exporters of inscripta.biocantor.io writing into an io.StringIO; the answer is the text."""
    import io

    def run(o):
        from inscripta.biocantor.io.genbank.constants import GenbankFlavor
        from inscripta.biocantor.io.genbank.writer import collection_to_genbank
        from inscripta.biocantor.io.gff3.writer import collection_to_gff3
        from inscripta.biocantor.io.ncbi.tbl_writer import collection_to_tbl

        fh = io.StringIO()
        if which == "tbl":
            # random_seed always given: without it protein_id / transcript_id are documented to be random strings
            collection_to_tbl([o], fh, locus_tag_prefix="LTP", submitter_lab_name="lab", random_seed=0, genbank_flavor=GenbankFlavor[kw["flavor"]])
        elif which == "tbl-seeded":
            collection_to_tbl([o], fh, random_seed=11, genbank_flavor=GenbankFlavor[kw["flavor"]])
        elif which == "gff3":
            collection_to_gff3([o], fh, **kw)
        elif which == "genbank":
            collection_to_genbank([o], fh, genbank_type=GenbankFlavor[kw["flavor"]], update_translations=kw.get("update", False))
        return fh.getvalue()

    return run


EXPORTERS = {
    "collection_to_tbl(EUKARYOTIC)": _export("tbl", flavor="EUKARYOTIC"),
    "collection_to_tbl(PROKARYOTIC)": _export("tbl", flavor="PROKARYOTIC"),
    "collection_to_tbl(seed=11)": _export("tbl-seeded", flavor="EUKARYOTIC"),
    "collection_to_gff3()": _export("gff3"),
    "collection_to_gff3(no-raise,unordered)": _export("gff3", raise_on_reserved_attributes=False, ordered=False),
    "collection_to_gff3(sequences,chunk-relative)": _export("gff3", add_sequences=True, chromosome_relative_coordinates=False, raise_on_reserved_attributes=False),
    "collection_to_genbank(PROKARYOTIC)": _export("genbank", flavor="PROKARYOTIC"),
    "collection_to_genbank(EUKARYOTIC,translations)": _export("genbank", flavor="EUKARYOTIC", update=True),
}


def _safe_list(fn, *args):
    try:
        return list(fn(*args))
    except Exception as e:  # noqa: BLE001 - the refusal is part of the answer
        return ("raised", type(e).__name__)


def _schema_roundtrip(o):
    from inscripta.biocantor.io.models import AnnotationCollectionModel

    m = AnnotationCollectionModel.Schema().load(o.to_dict())
    return [AnnotationCollectionModel.Schema().dump(m), m.to_annotation_collection()]


CATALOGUE_REFUSALS = [0]


def catalogue(obj, case, path, rebuild):
    out = auto_catalogue(obj)
    try:
        out = out + fixed_catalogue(obj, case, path, rebuild)
    except Exception:  # noqa: BLE001 - reading the argument values off the throw-away build was refused by the library (e.g. an
        # unbounded empty collection): that refusal is C19's business; the target keeps its discovered catalogue
        CATALOGUE_REFUSALS[0] += 1
    for a in out:
        if a.name in HOT:
            a.hot = True
    return out
