"""C19 API-sweep workload: JSON-able specs of valid objects of every public class, on every kind of parent, including
the edge objects the property names; builders that turn a spec into the real object plus a *reference frame* (lengths,
coordinates, companion objects) from which typed boundary arguments are drawn.

case = {"kind": "sweep", "cls": <class tag>, "spec": {...}, "parent": pspec | None, "aseed": int, "tag": str}
class tags: loc | emptyloc | seq | parent | cds | tx | feat | gene | fcoll | variant | vcoll | coll
pspec (gene layer) as in bcv.gen.genes: {"mode": none|chrom|chrom-noseq|chunk, "genome", "seqname", "window"}
"""
from bcv.gen import genes as GG
from bcv.gen import loc as G

PARENT_MODES = ("none", "chrom", "chrom-noseq", "chunk")
# parents that are neither chromosomes nor chunks (fixed edge objects only)
ODD_PARENT_MODES = ("bare-id", "plasmid-seq")


# ---------------------------------------------------------------------------------------------------------------
# specs
# ---------------------------------------------------------------------------------------------------------------
def _pspec(rng, mode, genome, lo=None, hi=None, window=None):
    """Parent spec; for chunk mode the window is chosen relative to the object span [lo, hi)."""
    ps = {"mode": mode, "genome": genome, "seqname": "chr1"}
    if mode == "chunk":
        n = len(genome)
        if window is None:
            kind = rng.choice(["cover", "cover", "cut5", "cut3", "inside", "miss", "exact"])
            if kind == "cover":
                window = [max(0, lo - rng.randint(0, 5)), min(n, hi + rng.randint(0, 5))]
            elif kind == "exact":
                window = [lo, hi]
            elif kind == "cut5":
                window = [min(hi - 1, lo + rng.randint(1, max(1, (hi - lo) // 2))), min(n, hi + 2)]
            elif kind == "cut3":
                window = [max(0, lo - 2), max(lo + 1, hi - rng.randint(1, max(1, (hi - lo) // 2)))]
            elif kind == "inside":
                a = rng.randint(lo, hi - 1)
                window = [a, rng.randint(a + 1, hi)]
            else:
                # a window that misses the object entirely (empty chunk-relative location)
                if hi + 2 <= n:
                    window = [hi, min(n, hi + rng.randint(2, 8))]
                elif lo >= 2:
                    window = [max(0, lo - rng.randint(2, 8)), lo]
                else:
                    window = [lo, hi]
        ps["window"] = window
    return ps


def _edits_for(rng, genome, lo, hi, k=None):
    """Non-overlapping variant edits [s, e, alt, type] inside / around [lo, hi)."""
    n = len(genome)
    k = k or rng.choice([1, 1, 2, 3])
    out = []
    pos = max(0, lo - 2)
    for _ in range(k):
        if pos >= min(n, hi + 2) - 1:
            break
        s = rng.randint(pos, min(n - 1, max(pos, hi)))
        kind = rng.choice(["snv", "ins", "del", "del0"])
        if kind == "snv":
            e, alt = s + 1, rng.choice([c for c in "ACGT" if c != genome[s]])
        elif kind == "ins":
            e, alt = s + 1, genome[s] + "".join(rng.choice("ACGT") for _ in range(rng.randint(1, 4)))
        elif kind == "del":
            e = min(n, s + rng.randint(2, 4))
            alt = genome[s]
        else:
            e = min(n, s + rng.randint(1, 3))
            alt = ""
        if e <= s:
            break
        out.append([s, e, alt, {"snv": "SNV", "ins": "insertion", "del": "deletion", "del0": "deletion"}[kind]])
        pos = e + rng.randint(0, 3)
    return out or [[lo, lo + 1, "A" if genome[lo] != "A" else "C", "SNV"]]


EDGE_TX = [
    # (tag, transcript spec fields)
    ("cds-no-complete-codon", {"exons": [[2, 12]], "strand": "+", "cds": [[4, 6]], "frames": [0]}),
    ("cds-offset-eats-all", {"exons": [[2, 12]], "strand": "-", "cds": [[4, 8]], "frames": [2]}),
    ("cds-1bp-blocks", {"exons": [[2, 3], [5, 6], [8, 9]], "strand": "+", "cds": [[2, 3], [5, 6], [8, 9]], "frames": [0, 1, 2]}),
    ("cds-full-length", {"exons": [[3, 9], [12, 18]], "strand": "+", "cds": [[3, 9], [12, 18]], "frames": [0, 0]}),
    ("cds-full-length-minus", {"exons": [[3, 9], [12, 18]], "strand": "-", "cds": [[3, 9], [12, 18]], "frames": [0, 0]}),
    ("no-3p-utr", {"exons": [[3, 9], [12, 18]], "strand": "+", "cds": [[5, 9], [12, 18]], "frames": [0, 1]}),
    ("no-5p-utr", {"exons": [[3, 9], [12, 18]], "strand": "+", "cds": [[3, 9], [12, 16]], "frames": [0, 0]}),
    ("no-3p-utr-minus", {"exons": [[3, 9], [12, 18]], "strand": "-", "cds": [[3, 9], [12, 16]], "frames": [2, 0]}),
    ("adjacent-cds-blocks", {"exons": [[2, 20]], "strand": "+", "cds": [[3, 9], [9, 15]], "frames": [0, 0]}),
    ("frameshift", {"exons": [[2, 10], [12, 24]], "strand": "+", "cds": [[2, 10], [12, 24]], "frames": [0, 1]}),
    ("noncoding", {"exons": [[2, 10], [12, 24]], "strand": "-", "cds": None, "frames": None}),
    ("single-base-exon", {"exons": [[7, 8]], "strand": "+", "cds": None, "frames": None}),
    ("exon-at-chromosome-end", {"exons": [[0, 4], [36, 40]], "strand": "+", "cds": [[1, 4], [36, 39]], "frames": [0, 0]}),
    ("overlapping-cds-blocks", {"exons": [[2, 30]], "strand": "+", "cds": [[3, 12], [10, 22]], "frames": [0, 2]}),
    ("overlapping-cds-blocks-minus", {"exons": [[2, 30]], "strand": "-", "cds": [[3, 12], [10, 22]], "frames": [1, 0]}),
    ("unstranded-noncoding", {"exons": [[2, 10], [12, 24]], "strand": ".", "cds": None, "frames": None}),
]


def _tx_defaults(t, ident="e"):
    out = {"transcript_id": "tx" + ident, "transcript_symbol": "sym" + ident, "transcript_type": "protein_coding" if t.get("cds") else None,
           "protein_id": "p" + ident if t.get("cds") else None, "product": None, "is_primary_tx": None, "qualifiers": {"note": ["x"]}, "guid": None}
    out.update(t)
    return out


def object_cases(rng, n_random, exhaustive_small=True):
    """Yield sweep cases: fixed edge objects on every parent mode, then n_random seeded random objects."""
    g40 = "ATGGCCTAAACGTTTGGGCCCATATAGCTAGCTAACGGTA"   # 40 bp, fixed
    # ---- locations --------------------------------------------------------------------------------------------
    loc_layouts = [((3, 9),), ((0, 40),), ((5, 5),), ((39, 40),), ((0, 1),), ((2, 5), (8, 12)), ((0, 3), (3, 7), (20, 40)),
                   ((4, 4), (6, 9)), ((2, 10), (4, 6)), ((1, 2), (3, 4), (5, 6), (7, 8))]
    for lay in loc_layouts:
        for strand in G.STRANDS:
            for pm in ("none", "id", "seq", "chunk"):
                yield {"kind": "sweep", "cls": "loc", "spec": {"blocks": [list(b) for b in lay], "strand": strand, "compound": len(lay) == 1 and lay[0][1] - lay[0][0] == 6},
                       "parent": {"mode": pm, "genome": g40, "seqname": "chr1", "window": [0, 40] if pm != "chunk" else [10, 50]},
                       "aseed": rng.randrange(1 << 30), "tag": "fixed"}
    # scale: 36..70 blocks, some zero-length blocks sitting inside introns (strategies that switch by block count)
    for nb, stride in ((36, 5), (70, 4)):
        lay = []
        for k in range(nb):
            lay.append((stride * k, stride * k + 2))
            if k % 9 == 4:
                lay.append((stride * k + 3, stride * k + 3))
        for strand in G.STRANDS:
            for pm in ("none", "id"):
                yield {"kind": "sweep", "cls": "loc", "spec": {"blocks": [list(b) for b in lay], "strand": strand, "compound": False},
                       "parent": {"mode": pm, "genome": g40, "seqname": "chr1", "window": [0, 40]}, "aseed": rng.randrange(1 << 30), "tag": "fixed-many-blocks"}
    yield {"kind": "sweep", "cls": "emptyloc", "spec": {}, "parent": None, "aseed": rng.randrange(1 << 30), "tag": "fixed"}
    # ---- sequences / parents ------------------------------------------------------------------------------------
    for shape in ("plain", "empty", "with-id-type", "on-parent-plus", "on-parent-minus", "on-compound-parent", "chunk", "protein", "lower"):
        yield {"kind": "sweep", "cls": "seq", "spec": {"shape": shape, "data": g40[:20]}, "parent": None, "aseed": rng.randrange(1 << 30), "tag": "fixed"}
    for shape in ("empty", "id", "id-type", "seq", "loc", "loc-seq", "chunk", "nested", "strand-only", "loc-unstranded", "compound-loc"):
        yield {"kind": "sweep", "cls": "parent", "spec": {"shape": shape, "data": g40}, "parent": None, "aseed": rng.randrange(1 << 30), "tag": "fixed"}
    # ---- gene layer: fixed edge objects -----------------------------------------------------------------------
    windows = {"cover": [0, 40], "cut": [5, 14], "miss": [26, 34], "one-base": [5, 6]}
    for tag, t in EDGE_TX:
        t = _tx_defaults(t)
        for pm in PARENT_MODES + ODD_PARENT_MODES:
            for wname, w in (windows.items() if pm == "chunk" else [("-", None)]):
                ps = {"mode": pm, "genome": g40, "seqname": "chr1"}
                if w:
                    ps["window"] = w
                base = {"kind": "sweep", "parent": ps, "tag": f"{tag}/{pm}/{wname}"}
                yield dict(base, cls="tx", spec=t, aseed=rng.randrange(1 << 30))
                if t["cds"]:
                    yield dict(base, cls="cds", spec=t, aseed=rng.randrange(1 << 30))
                yield dict(base, cls="gene", spec={"transcripts": [t], "gene_id": "g", "gene_symbol": "gs", "gene_type": None, "locus_tag": None,
                                                   "qualifiers": {}, "guid": None}, aseed=rng.randrange(1 << 30))
    feats = [("one-block", {"blocks": [[3, 9]], "strand": "+"}), ("two-blocks-minus", {"blocks": [[3, 9], [12, 18]], "strand": "-"}),
             ("one-base", {"blocks": [[39, 40]], "strand": "+"}), ("adjacent", {"blocks": [[3, 9], [9, 12]], "strand": "+"}),
             ("unstranded", {"blocks": [[3, 9], [12, 18]], "strand": "."}), ("overlapping-blocks", {"blocks": [[3, 12], [9, 18]], "strand": "-"})]
    for tag, f in feats:
        f = dict({"feature_types": ["promoter"], "feature_name": "fn", "feature_id": "fid", "is_primary_feature": None, "qualifiers": {}, "guid": None}, **f)
        for pm in PARENT_MODES + ODD_PARENT_MODES:
            for wname, w in (windows.items() if pm == "chunk" else [("-", None)]):
                ps = {"mode": pm, "genome": g40, "seqname": "chr1"}
                if w:
                    ps["window"] = w
                base = {"kind": "sweep", "parent": ps, "tag": f"{tag}/{pm}/{wname}"}
                yield dict(base, cls="feat", spec=f, aseed=rng.randrange(1 << 30))
                yield dict(base, cls="fcoll", spec={"features": [f, dict(f, feature_name="fn2", blocks=[[20, 25]], feature_types=[])],
                                                    "feature_collection_name": "fc", "feature_collection_id": "fcid",
                                                    "feature_collection_type": None, "locus_tag": None, "qualifiers": {}, "guid": None},
                           aseed=rng.randrange(1 << 30))
    # variants
    vedits = [("snv", [[5, 6, "T", "SNV"]]), ("ins", [[5, 6, "GTT", "insertion"]]), ("del-padded", [[5, 9, "C", "deletion"]]),
              ("del-unpadded", [[5, 8, "", "deletion"]]), ("at-start", [[0, 1, "G", "SNV"]]), ("at-end", [[39, 40, "C", "SNV"]]),
              ("three", [[2, 3, "T", "SNV"], [8, 11, "A", "deletion"], [20, 21, "AGG", "insertion"]]),
              ("adjacent", [[4, 6, "A", "deletion"], [6, 7, "T", "SNV"]])]
    for tag, ed in vedits:
        for pm in PARENT_MODES:
            for wname, w in ({"cover": [0, 40], "cut": [3, 24], "miss": [26, 34]}.items() if pm == "chunk" else [("-", None)]):
                if pm == "chunk" and wname == "cut" and any(e[0] < w[0] < e[1] or e[0] < w[1] < e[1] for e in ed):
                    continue
                ps = {"mode": pm, "genome": g40, "seqname": "chr1"}
                if w:
                    ps["window"] = w
                base = {"kind": "sweep", "parent": ps, "tag": f"{tag}/{pm}/{wname}"}
                if len(ed) == 1:
                    yield dict(base, cls="variant", spec={"edit": ed[0]}, aseed=rng.randrange(1 << 30))
                yield dict(base, cls="vcoll", spec={"edits": ed}, aseed=rng.randrange(1 << 30))
    # annotation collections (incl. empty ones)
    for tag, cs in (("empty-unbounded", {"genes": [], "fcolls": [], "start": None, "end": None}),
                    ("empty-bounded", {"genes": [], "fcolls": [], "start": 2, "end": 30}),
                    ("empty-zero-width", {"genes": [], "fcolls": [], "start": 5, "end": 5})):
        for pm in PARENT_MODES:
            ps = {"mode": pm, "genome": g40, "seqname": "chr1", "window": [4, 36]}
            yield {"kind": "sweep", "cls": "coll", "spec": dict(cs, name="c", sequence_name="chr1", qualifiers={}), "parent": ps,
                   "aseed": rng.randrange(1 << 30), "tag": f"{tag}/{pm}"}
    # ---- random objects -----------------------------------------------------------------------------------------
    for k in range(n_random):
        glen = rng.choice([30, 60, 120])
        genome = GG.rand_genome(rng, glen)
        cls = rng.choice(["loc", "loc", "cds", "tx", "tx", "feat", "gene", "fcoll", "variant", "vcoll", "coll", "coll"])
        pm = rng.choice(PARENT_MODES)
        aseed = rng.randrange(1 << 30)
        if cls == "loc":
            lay = G.rand_layout(rng, glen, 4, overlap=rng.random() < 0.15)
            lpm = rng.choice(["none", "id", "seq", "chunk"])
            yield {"kind": "sweep", "cls": "loc", "spec": {"blocks": [list(b) for b in lay], "strand": rng.choice(G.STRANDS), "compound": rng.random() < 0.2},
                   "parent": {"mode": lpm, "genome": genome, "seqname": "chr1", "window": [5, 5 + glen] if lpm == "chunk" else [0, glen]},
                   "aseed": aseed, "tag": "random"}
            continue
        if cls in ("cds", "tx"):
            t = GG.rand_transcript_spec(rng, 0, glen, coding=True if cls == "cds" else None)
            if cls == "cds" and not t["cds"]:
                continue
            lo, hi = GG.tx_span(t)
            yield {"kind": "sweep", "cls": cls, "spec": t, "parent": _pspec(rng, pm, genome, lo, hi), "aseed": aseed, "tag": "random"}
        elif cls == "feat":
            f = GG.rand_feature_spec(rng, 0, glen)
            lo, hi = GG.feat_span(f)
            yield {"kind": "sweep", "cls": cls, "spec": f, "parent": _pspec(rng, pm, genome, lo, hi), "aseed": aseed, "tag": "random"}
        elif cls == "gene":
            gs = GG.rand_gene_spec(rng, 0, glen, same_strand=rng.random() < 0.8)
            lo, hi = GG.gene_span(gs)
            yield {"kind": "sweep", "cls": cls, "spec": gs, "parent": _pspec(rng, pm, genome, lo, hi), "aseed": aseed, "tag": "random"}
        elif cls == "fcoll":
            fc = GG.rand_fcoll_spec(rng, 0, glen)
            lo, hi = GG.fcoll_span(fc)
            yield {"kind": "sweep", "cls": cls, "spec": fc, "parent": _pspec(rng, pm, genome, lo, hi), "aseed": aseed, "tag": "random"}
        elif cls in ("variant", "vcoll"):
            lo = rng.randint(0, glen - 10)
            ed = _edits_for(rng, genome, lo, lo + 10, 1 if cls == "variant" else None)
            vlo, vhi = min(e[0] for e in ed), max(e[1] for e in ed)
            ps = _pspec(rng, pm, genome, vlo, vhi)
            if pm == "chunk":
                w = ps["window"]
                if any(e[0] < w[0] < e[1] or e[0] < w[1] < e[1] for e in ed):
                    ps["window"] = [max(0, vlo - 1), min(glen, vhi + 1)]
            yield {"kind": "sweep", "cls": cls, "spec": {"edit": ed[0]} if cls == "variant" else {"edits": ed}, "parent": ps,
                   "aseed": aseed, "tag": "random"}
        else:
            cs = GG.rand_collection_spec(rng, glen, ngenes=rng.randint(0, 3), nfcolls=rng.randint(0, 2), bounds=rng.random() < 0.4)
            if rng.random() < 0.4 and (cs["genes"] or cs["fcolls"]):
                lo = min([GG.gene_span(g)[0] for g in cs["genes"]] + [GG.fcoll_span(f)[0] for f in cs["fcolls"]])
                cs["variants"] = [_edits_for(rng, genome, lo, min(glen, lo + 12))]
            ps = {"mode": pm, "genome": genome, "seqname": "chr1", "window": [0, glen] if rng.random() < 0.5 else
                  sorted([rng.randint(0, glen // 2), rng.randint(glen // 2 + 1, glen)])}
            if pm == "chunk" and cs.get("variants"):
                w = ps["window"]
                if any(e[0] < w[0] < e[1] or e[0] < w[1] < e[1] for e in cs["variants"][0]):
                    ps["window"] = [0, glen]
            if cs["start"] is not None and pm == "chunk":
                cs["start"], cs["end"] = ps["window"]
            yield {"kind": "sweep", "cls": "coll", "spec": cs, "parent": ps, "aseed": aseed, "tag": "random"}


# ---------------------------------------------------------------------------------------------------------------
# builders
# ---------------------------------------------------------------------------------------------------------------
def _loc_parent(ps):
    """Parent for a bare Location: none | id | seq (whole chromosome) | chunk (nested chunk -> chromosome)."""
    from inscripta.biocantor.io.parser import seq_chunk_to_parent

    mode = ps["mode"]
    if mode == "none":
        return None
    if mode == "id":
        return G.make_parent("id", pid=ps["seqname"])
    if mode == "seq":
        return G.make_parent("seq", genome=ps["genome"], pid=ps["seqname"])
    if mode == "chunk":
        cs, ce = ps["window"]
        return seq_chunk_to_parent(ps["genome"], ps["seqname"], cs, ce)
    raise ValueError(mode)


def _gene_parent(ps):
    from inscripta.biocantor.parent import Parent
    from inscripta.biocantor.sequence import Alphabet, Sequence

    if ps and ps.get("mode") == "bare-id":
        return Parent(id=ps["seqname"])
    if ps and ps.get("mode") == "plasmid-seq":
        return Parent(id=ps["seqname"], sequence=Sequence(ps["genome"], Alphabet.NT_EXTENDED_GAPPED, type="plasmid"))
    return GG.build_parent(ps)


def build_sequence(spec):
    from inscripta.biocantor.location.location_impl import SingleInterval, CompoundInterval
    from inscripta.biocantor.location.strand import Strand
    from inscripta.biocantor.parent import Parent, SequenceType
    from inscripta.biocantor.sequence import Sequence, Alphabet
    from inscripta.biocantor.io.parser import seq_chunk_to_parent

    d = spec["data"]
    sh = spec["shape"]
    if sh == "plain":
        return Sequence(d, Alphabet.NT_STRICT)
    if sh == "empty":
        return Sequence("", Alphabet.NT_STRICT)
    if sh == "with-id-type":
        return Sequence(d, Alphabet.NT_EXTENDED_GAPPED, id="s1", type=SequenceType.CHROMOSOME)
    if sh == "on-parent-plus":
        return Sequence(d, Alphabet.NT_STRICT, id="s1", parent=Parent(id="p", location=SingleInterval(5, 5 + len(d), Strand.PLUS)))
    if sh == "on-parent-minus":
        return Sequence(d, Alphabet.NT_STRICT, parent=Parent(id="p", location=SingleInterval(5, 5 + len(d), Strand.MINUS)))
    if sh == "on-compound-parent":
        h = len(d) // 2
        return Sequence(d, Alphabet.NT_STRICT, parent=Parent(id="p", location=CompoundInterval([2, 30], [2 + h, 30 + len(d) - h], Strand.PLUS)))
    if sh == "chunk":
        return seq_chunk_to_parent(d, "chr1", 100, 100 + len(d)).sequence
    if sh == "protein":
        return Sequence("MKV*", Alphabet.AA)
    if sh == "lower":
        return Sequence(d.lower(), Alphabet.NT_STRICT)
    raise ValueError(sh)


def build_parent_object(spec):
    from inscripta.biocantor.location.location_impl import SingleInterval, CompoundInterval
    from inscripta.biocantor.location.strand import Strand
    from inscripta.biocantor.parent import Parent, SequenceType
    from inscripta.biocantor.sequence import Sequence, Alphabet
    from inscripta.biocantor.io.parser import seq_chunk_to_parent, seq_to_parent

    d = spec["data"]
    sh = spec["shape"]
    if sh == "empty":
        return Parent()
    if sh == "id":
        return Parent(id="p1")
    if sh == "id-type":
        return Parent(id="p1", sequence_type=SequenceType.CHROMOSOME)
    if sh == "seq":
        return seq_to_parent(d, seq_id="chr1")
    if sh == "loc":
        return Parent(id="p1", location=SingleInterval(3, 9, Strand.MINUS))
    if sh == "loc-seq":
        return Parent(id="p1", location=SingleInterval(3, 9, Strand.PLUS), sequence=Sequence(d, Alphabet.NT_STRICT))
    if sh == "chunk":
        return seq_chunk_to_parent(d, "chr1", 100, 100 + len(d))
    if sh == "nested":
        return Parent(id="child", sequence_type="exon", location=SingleInterval(1, 4, Strand.PLUS),
                      parent=Parent(id="mid", sequence_type="transcript", location=SingleInterval(10, 20, Strand.MINUS),
                                    parent=Parent(id="top", sequence_type=SequenceType.CHROMOSOME)))
    if sh == "strand-only":
        return Parent(strand=Strand.MINUS)
    if sh == "loc-unstranded":
        return Parent(id="p1", location=SingleInterval(3, 9, Strand.UNSTRANDED), parent=Parent(id="top", location=SingleInterval(0, 30, Strand.PLUS)))
    if sh == "compound-loc":
        return Parent(id="p1", location=CompoundInterval([3, 12], [9, 15], Strand.PLUS), parent=Parent(id="top", location=CompoundInterval([0, 40], [30, 50], Strand.MINUS)))
    raise ValueError(sh)


def build_variants(edits, parent):
    from inscripta.biocantor.gene.variants import VariantInterval

    return [VariantInterval(s, e, alt, vt, variant_name=f"v{k}", parent_or_seq_chunk_parent=parent) for k, (s, e, alt, vt) in enumerate(edits)]


def build(case):
    """-> (object, frame).  frame: dict with the numbers and companion objects used to draw typed arguments."""
    from inscripta.biocantor.gene.variants import VariantIntervalCollection
    from inscripta.biocantor.location.location_impl import EmptyLocation

    cls, spec, ps = case["cls"], case["spec"], case.get("parent")
    fr = {"cls": cls, "genome": (ps or {}).get("genome"), "pspec": ps}
    if cls == "loc":
        par = _loc_parent(ps)
        obj = G.build([tuple(b) for b in spec["blocks"]], spec["strand"], parent=par, force_compound=spec.get("compound", False))
        fr["glen"] = len(ps["genome"]) if ps["mode"] in ("seq", "chunk") else None
        return obj, fr
    if cls == "emptyloc":
        return EmptyLocation(), fr
    if cls == "seq":
        return build_sequence(spec), fr
    if cls == "parent":
        return build_parent_object(spec), fr
    par = _gene_parent(ps)
    seqname = ps.get("seqname") if ps else None
    fr["glen"] = len(ps["genome"]) if ps and ps.get("genome") else None
    if cls == "cds":
        return GG.build_cds(spec, par, seqname), fr
    if cls == "tx":
        return GG.build_transcript(spec, par, seqname), fr
    if cls == "feat":
        return GG.build_feature(spec, par, seqname), fr
    if cls == "gene":
        return GG.build_gene(spec, par, seqname), fr
    if cls == "fcoll":
        return GG.build_fcoll(spec, par, seqname), fr
    if cls == "variant":
        return build_variants([spec["edit"]], par)[0], fr
    if cls == "vcoll":
        return VariantIntervalCollection(build_variants(spec["edits"], par), variant_collection_name="vc", sequence_name=seqname,
                                         parent_or_seq_chunk_parent=par), fr
    if cls == "coll":
        from inscripta.biocantor.gene.collections import AnnotationCollection

        vcs = [VariantIntervalCollection(build_variants(ed, par), variant_collection_name=f"vc{k}", sequence_name=seqname,
                                         parent_or_seq_chunk_parent=par) for k, ed in enumerate(spec.get("variants", []))]
        return AnnotationCollection(
            feature_collections=[GG.build_fcoll(fc, par, seqname) for fc in spec.get("fcolls", [])] or None,
            genes=[GG.build_gene(g, par, seqname) for g in spec.get("genes", [])] or None,
            variant_collections=vcs or None, name=spec.get("name"), sequence_name=spec.get("sequence_name"),
            qualifiers={k: list(v) for k, v in (spec.get("qualifiers") or {}).items()} or None,
            start=spec.get("start"), end=spec.get("end"), parent_or_seq_chunk_parent=par), fr
    raise ValueError(cls)
