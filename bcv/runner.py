"""./check <ID> [--tier quick|thorough] [--replay FILE]

Fans a property's workload out over shard processes (fresh interpreters, no byte-code, PYTHONHASHSEED 0..3 by shard index),
merges what the monitors observed, classifies violations against KNOWN_FINDINGS.json, writes the evidence
file and decides the exit code:  0 held on what was observed / 1 VIOLATION / 2 INCONCLUSIVE.
"""
import argparse
import concurrent.futures
import hashlib
import importlib
import json
import os
import shutil
import subprocess
import sys
import time

sys.path.insert(0, os.path.dirname(os.path.dirname(os.path.abspath(__file__))))

from bcv import env  # noqa: E402

VERIF = env.VERIF
NCPU = min(16, os.cpu_count() or 4)


def load_known():
    path = os.path.join(VERIF, "KNOWN_FINDINGS.json")
    if not os.path.exists(path):
        return {}
    with open(path) as fh:
        data = json.load(fh)
    known = {}
    for f in data.get("findings", []):
        if f.get("status") == "known":
            known[(f["property"], f["key"])] = f
    return known


def default_shards(tier, n=None):
    n = n or NCPU
    return [{"i": i, "n": n, "tier": tier} for i in range(n)]


class _cpu_slot:
    """Machine-wide cap on concurrently running shard processes (one flock'ed slot file per core), so that several
    checks started at the same time queue instead of thrashing.  Created on demand; no effect on a single check."""

    DIR = os.environ.get("BCV_SLOT_DIR", "/tmp/bcv-slots")

    def __enter__(self):
        import fcntl

        self.fh = None
        try:
            os.makedirs(self.DIR, exist_ok=True)
        except OSError:
            return self
        while True:
            for k in range(NCPU):
                try:
                    fh = open(os.path.join(self.DIR, f"slot{k}"), "a")
                except OSError:
                    return self
                try:
                    fcntl.flock(fh, fcntl.LOCK_EX | fcntl.LOCK_NB)
                    self.fh = fh
                    return self
                except OSError:
                    fh.close()
            time.sleep(0.2)

    def __exit__(self, *a):
        if self.fh is not None:
            self.fh.close()
        return False


HASHSEEDS = (0, 1, 2, 3)


def run_shards(pid, tier, seed, specs, timeout):
    work = os.path.join(env.WORK, f"run-{pid}-{os.getpid()}")
    os.makedirs(work, exist_ok=True)
    shard_py = os.path.join(VERIF, "bcv", "shard.py")

    def one(k_spec):
        with _cpu_slot():
            return _one(k_spec)

    def _one(k_spec):
        k, spec = k_spec
        specf = os.path.join(work, f"spec{k}.json")
        outf = os.path.join(work, f"out{k}.json")
        with open(specf, "w") as fh:
            json.dump(spec, fh)
        e = dict(os.environ)
        # str / bytes hashing differs between the shard processes (set and dict-of-set iteration orders with it); shard 0 keeps seed 0.
        # The seed is stored with every violation and restored by --replay.
        e["PYTHONHASHSEED"] = str(HASHSEEDS[k % len(HASHSEEDS)])
        e["PYTHONDONTWRITEBYTECODE"] = "1"
        e["BIOCANTOR_VERIF"] = "1"
        e["VERIF_REPO"] = env.REPO
        e["BCV_WORK"] = work
        e.update({k2: str(v) for k2, v in spec.get("env", {}).items()})
        t0 = time.time()
        try:
            p = subprocess.run(
                [sys.executable, "-B", shard_py, pid, tier, str(seed), specf, outf],
                env=e,
                timeout=timeout,
                capture_output=True,
                text=True,
                cwd=work,
            )
        except subprocess.TimeoutExpired:
            return {"dead": f"watchdog {timeout}s", "spec": spec}
        if p.returncode != 0 or not os.path.exists(outf):
            return {"dead": f"exit {p.returncode}", "stderr": p.stderr[-2000:], "spec": spec}
        with open(outf) as fh:
            r = json.load(fh)
        r["proc_wall_s"] = time.time() - t0
        return r

    try:
        with concurrent.futures.ThreadPoolExecutor(max_workers=NCPU) as ex:
            results = list(ex.map(one, enumerate(specs)))
    finally:
        shutil.rmtree(work, ignore_errors=True)
    return results


def merge(results):
    m = {
        "evaluations": 0,
        "sigs": set(),
        "sig_hist": {},
        "monitor_evals": {},
        "exceptions": {},
        "violations": [],
        "viol_count": 0,
        "samples": {},
        "extra": {},
        "reach": {},
        "cover": {},
        "dead": [],
        "harness_errors": [],
        "n_harness_errors": 0,
    }
    for r in results:
        if "dead" in r:
            m["dead"].append(r)
            continue
        m["evaluations"] += r["evaluations"]
        m["sigs"].update(r["sigs"])
        for name in ("sig_hist", "monitor_evals", "exceptions", "extra"):
            for k, v in r[name].items():
                m[name][k] = m[name].get(k, 0) + v
        for k, v in r.get("reach", {}).items():
            if v < 0:
                m["reach"].setdefault(k, -1)
            else:
                m["reach"][k] = max(m["reach"].get(k, 0), 0) + v
        for rel, lines in r.get("cover", {}).items():
            m["cover"].setdefault(rel, set()).update(lines)
        m["violations"].extend(r["violations"])
        m["viol_count"] += r["viol_count"]
        for k, v in r["samples"].items():
            s = m["samples"].setdefault(k, [])
            if len(s) < 2:
                s.extend(v[: 2 - len(s)])
        m["harness_errors"].extend(r.get("harness_errors", []))
        m["n_harness_errors"] += r.get("n_harness_errors", 0)
    return m


def cover_summary(cover, detail=False):
    """Statement coverage of the property's anchored files by this run's workload (evidence of reach, not a verdict)."""
    from bcv.monitors import reach

    files, never, partial = {}, [], {}
    for rel, hit in sorted(cover.items()):
        path = os.path.join(env.REPO, rel)
        if not os.path.exists(path):
            continue
        hit = set(hit)
        fn_lines = reach.executable_lines(path)
        allx = set().union(*fn_lines.values()) if fn_lines else set()
        files[rel] = {"executable_lines": len(allx), "executed_lines": len(allx & hit),
                      "functions": sum(1 for n in fn_lines if n != "<module>"),
                      "functions_entered": sum(1 for n, ls in fn_lines.items() if n != "<module>" and ls & hit)}
        for n, ls in sorted(fn_lines.items()):
            if n == "<module>" or not ls:
                continue
            if not ls & hit:
                never.append(f"{rel}:{n}")
            elif detail and ls - hit:
                partial[f"{rel}:{n}"] = sorted(ls - hit)
    out = {"files": files, "functions_never_entered": never[:80], "functions_never_entered_total": len(never)}
    if detail:
        out["partial"] = partial
    return out


def replay_path(pid, v):
    blob = json.dumps({"monitor": v["monitor"], "case": v["case"]}, sort_keys=True, default=repr)
    sha = hashlib.sha1(blob.encode()).hexdigest()[:16]
    d = os.path.join(os.environ.get("BCV_REPLAY_DIR") or os.path.join(VERIF, "replays"), pid)
    os.makedirs(d, exist_ok=True)
    return os.path.join(d, sha + ".json")


def decide(pid, mod, tier, seed, m, wall, write_evidence=True):
    known = load_known()
    classify = getattr(mod, "classify", lambda v: None)
    lines = []
    known_seen = {}
    unlisted = {}
    for v in m["violations"]:
        try:
            key = classify(v)
        except Exception:  # noqa: BLE001 - a classifier must never hide a violation
            key = None
        v["finding"] = key
        if key is not None and (pid, key) in known:
            known_seen.setdefault(key, []).append(v)
        else:
            dk = (v["monitor"], json.dumps(v.get("key"), sort_keys=True, default=repr))
            unlisted.setdefault(dk, []).append(v)
    for key, vs in sorted(known_seen.items()):
        lines.append(f"KNOWN-FINDING: property={pid} {key} {known[(pid, key)].get('short') or known[(pid, key)]['what']} (seen {len(vs)}x this run)")
    viol_lines = []
    for dk, vs in list(unlisted.items())[:20]:
        v = vs[0]
        path = replay_path(pid, v)
        with open(path, "w") as fh:
            json.dump({"property": pid, "tier": tier, "seed": seed, **v}, fh, indent=1, sort_keys=True, default=repr)
        ln = f"VIOLATION property={pid} replay={path}"
        if ln not in viol_lines:
            viol_lines.append(ln)
        sys.stderr.write(f"  [{v['monitor']}] key={v.get('key')} detail={json.dumps(v['detail'], default=repr)[:600]}\n")

    # ---- inconclusive? -------------------------------------------------------------------
    reasons = []
    if m["dead"]:
        reasons.append("shard died: " + "; ".join(str(d.get("dead")) + " " + str(d.get("stderr", ""))[-300:] for d in m["dead"][:3]))
    if m["n_harness_errors"]:
        reasons.append(f"{m['n_harness_errors']} harness errors, first: " + json.dumps(m["harness_errors"][0])[-1500:])
    for mon in getattr(mod, "REQUIRED_MONITORS", []):
        if m["monitor_evals"].get(mon, 0) == 0:
            reasons.append(f"deciding monitor '{mon}' was never evaluated")
    for fn in getattr(mod, "REACH_REQUIRED", []):
        if m["reach"].get(fn, 0) <= 0:
            reasons.append(f"anchored mechanism {fn} never reached ({m['reach'].get(fn)})")
    floor = getattr(mod, "FLOOR", {}).get(tier, 2)
    if len(m["sigs"]) < max(2, floor):
        reasons.append(f"only {len(m['sigs'])} distinct non-trivial cases (< floor {floor})")

    # ---- evidence ---------------------------------------------------------------------------
    samples = []
    for klass, cs in sorted(m["samples"].items()):
        for c in cs[:1]:
            samples.append({"class": klass, "case": c})
    samples = samples[:12]
    ev = {
        "property_id": pid,
        "tier": tier,
        "seed": seed,
        "level": getattr(mod, "LEVEL", "exploration"),
        "coverage": {
            "evaluations": m["evaluations"],
            "distinct_nontrivial": len(m["sigs"]),
            "rule": getattr(mod, "RULE", ""),
            "samples": samples or [{"note": "no sample recorded"}],
            "exhaustive": bool(getattr(mod, "EXHAUSTIVE", False)),
            "exhaustive_scope": getattr(mod, "EXHAUSTIVE_SCOPE", {}).get(tier) if hasattr(mod, "EXHAUSTIVE_SCOPE") else None,
            "monitor_evaluations": m["monitor_evals"],
            "reach": m["reach"],
            "anchor_statement_coverage": cover_summary(m["cover"]),
            "exceptions_observed": m["exceptions"],
            "signature_histogram": m["sig_hist"],
            "counters": m["extra"],
            "known_findings_seen": {k: len(v) for k, v in known_seen.items()},
            "unlisted_violations": [
                {"monitor": vs[0]["monitor"], "key": vs[0].get("key"), "count": len(vs)} for vs in list(unlisted.values())[:20]
            ],
            "verdict": "violated" if viol_lines else ("inconclusive" if reasons else "held on what was observed"),
            "inconclusive_reasons": reasons,
            "shards": len(m.get("_specs", [])),
        },
        "assumptions": list(getattr(mod, "ASSUMPTIONS", [])) + _base_assumptions(),
        "wall_s": round(wall, 2),
        "violations": sum(len(v) for v in unlisted.values()),
    }
    if write_evidence:
        os.makedirs(os.path.join(VERIF, "evidence"), exist_ok=True)
        from bcv import core

        core.dump(os.path.join(VERIF, "evidence", f"{pid}.json"), ev)

    for ln in lines:
        print(ln)
    if viol_lines:
        for ln in viol_lines:
            print(ln)
        return 1
    if reasons:
        print(f"INCONCLUSIVE property={pid} reason=" + " | ".join(reasons)[:3000])
        return 2
    mon = sum(m["monitor_evals"].values())
    print(
        f"OK property={pid} tier={tier} seed={seed} cases={m['evaluations']} distinct_nontrivial={len(m['sigs'])} "
        f"monitor_evaluations={mon} wall={wall:.1f}s"
    )
    return 0


def _base_assumptions():
    from bcv import compat

    return compat.assumptions() + [
        "CPython 3.12 in /venv; icontract 2.7.3 from the offline wheelhouse",
        "pure-Python code paths only: cgranges, pysam, pyvcf are not installed and cannot be driven",
        "shard processes run under PYTHONHASHSEED 0, 1, 2, 3 (by shard index): four str-hash orders were observed, not all",
        "verdict = held on the executions described here, not a proof",
    ]


def do_replay(pid, mod, path):
    from bcv import core
    from bcv.monitors import reach

    with open(path) as fh:
        rec = json.load(fh)
    hs = str(rec.get("hashseed", 0))
    if os.environ.get("PYTHONHASHSEED") != hs:      # same str hashing as the shard that recorded the case
        os.execve(sys.executable, [sys.executable, "-B"] + sys.argv, dict(os.environ, PYTHONHASHSEED=hs))
    ctx = core.Ctx(pid, rec.get("tier", "quick"), rec.get("seed", 0))
    ctx.spec = {"i": 0, "n": 1, "replay": True}
    reach.watch(getattr(mod, "REACH", []))
    if hasattr(mod, "setup"):
        mod.setup(ctx)
    ctx.begin(rec["case"])
    try:
        if hasattr(mod, "replay_case"):
            mod.replay_case(rec["case"], ctx)
        else:
            mod.run_case(rec["case"], ctx)
    except Exception as e:  # noqa: BLE001
        ctx.escaped(e)
    known = load_known()
    classify = getattr(mod, "classify", lambda v: None)
    bad = [v for v in ctx.violations if not ((k := classify(v)) is not None and (pid, k) in known)]
    if ctx.harness_errors:
        print(f"INCONCLUSIVE property={pid} reason=harness error during replay: {ctx.harness_errors[0]['traceback'][-800:]}")
        return 2
    if bad:
        for v in bad[:5]:
            sys.stderr.write(f"  [{v['monitor']}] {json.dumps(v['detail'], default=repr)[:800]}\n")
        print(f"VIOLATION property={pid} replay={os.path.abspath(path)}")
        return 1
    print(f"REPLAY-OK property={pid}: the stored case no longer violates ({sum(ctx.monitor_evals.values())} monitor evaluations)")
    return 0


def main():
    ap = argparse.ArgumentParser()
    ap.add_argument("pid")
    ap.add_argument("--tier", default=os.environ.get("VERIF_TIER", "quick"), choices=["quick", "thorough"])
    ap.add_argument("--replay")
    ap.add_argument("--no-evidence", action="store_true")
    a = ap.parse_args()
    pid = a.pid.upper()
    try:
        seed = int(os.environ.get("VERIF_SEED", "0"))
    except ValueError:
        seed = 0
    env.boot()
    mod = importlib.import_module(f"bcv.props.{pid.lower()}")
    if a.replay:
        sys.exit(do_replay(pid, mod, a.replay))
    t0 = time.time()
    specs = mod.shards(a.tier, seed) if hasattr(mod, "shards") else default_shards(a.tier)
    for s in specs:
        s.setdefault("tier", a.tier)
    timeout = getattr(mod, "WATCHDOG", {}).get(a.tier, 1500 if a.tier == "quick" else 3 * 3600)
    results = run_shards(pid, a.tier, seed, specs, timeout)
    m = merge(results)
    m["_specs"] = specs
    rc = decide(pid, mod, a.tier, seed, m, time.time() - t0, write_evidence=not a.no_evidence)
    if os.environ.get("BCV_COVER_DETAIL"):
        from bcv import core

        core.dump(os.environ["BCV_COVER_DETAIL"], cover_summary(m["cover"], detail=True))
    sys.exit(rc)


if __name__ == "__main__":
    main()
