"""C19 mutation catalogue: removed ``raise`` in constructor / argument checks, inverted require_* helpers, a ``[0]`` on a
possibly empty list, scan_windows bounds, reverted zero-width fix.  name -> ([ids], file, old text (unique), new text)."""
L = "inscripta/biocantor/location/location_impl.py"
LO = "inscripta/biocantor/location/location.py"
ST = "inscripta/biocantor/location/strand.py"
OV = "inscripta/biocantor/util/object_validation.py"
PA = "inscripta/biocantor/parent/parent.py"
SQ = "inscripta/biocantor/sequence/sequence.py"
C = "inscripta/biocantor/gene/cds.py"
T = "inscripta/biocantor/gene/transcript.py"
G = "inscripta/biocantor/gene/gene.py"
V = "inscripta/biocantor/gene/variants.py"
A = "inscripta/biocantor/gene/collections.py"
MUTATIONS = {
    # ---- removed raise in constructor checks ---------------------------------------------------------------------
    "c19-single-interval-no-position-check": (["C19"], L, '            raise InvalidPositionException(f"Positions must satisfy 0 <= start <= end. Start: {start}, end: {end}")',
                                              "            pass"),
    "c19-compound-interval-no-length-check": (["C19"], L, '            raise LocationException("Lists of start and end positions must be nonempty and have same length")',
                                              "            pass"),
    "c19-compound-interval-no-block-order-check": (["C19"], L, '                raise InvalidPositionException("Block starts must be less than block ends")', "                pass"),
    "c19-parent-no-strand-check": (["C19"], PA, '                raise InvalidStrandException("Strand does not match location: {} != {}".format(strand, location.strand))',
                                   "                pass"),
    "c19-parent-location-bound-off-by-one": (["C19"], PA, "            if sequence is not None and location.end > len(sequence):",
                                             "            if sequence is not None and location.end > len(sequence) + 1:"),
    "c19-unique-value-first-wins": (["C19"], PA, '        raise ParentException(f"Multiple distinct non-null values were provided: {values}")', "        return sorted(values)[0]"),
    "c19-sequence-no-alphabet-check": (["C19"], SQ, '            raise AlphabetError("Invalid sequence for alphabet {}".format(alphabet.name))', "            pass"),
    "c19-sequence-no-parent-length-check": (["C19"], SQ, "location) != len(self):", "location) < len(self):"),
    "c19-cds-no-frame-count-check": (["C19"], C, '            raise MismatchedFrameException("Number of frame or phase entries must match number of exons")', "            pass"),
    "c19-cds-mixed-frame-phase-accepted": (["C19"], C, "            if is_frame and isinstance(frame_or_phase, CDSPhase):", "            if not is_frame and isinstance(frame_or_phase, CDSPhase):"),
    "c19-cds-empty-accepted": (["C19"], C, '            raise InvalidCDSIntervalError("Cannot have an empty CDS interval")', "            pass"),
    "c19-transcript-cds-end-bound-check-removed": (["C19"], T, '                raise InvalidCDSIntervalError("CDS end must be less than or equal to than exon end")', "                pass"),
    "c19-transcript-cds-start-bound-strict": (["C19"], T, "            elif cds_starts[0] < exon_starts[0]:", "            elif cds_starts[0] < exon_starts[0] - 1:"),
    "c19-transcript-start-without-end-accepted": (["C19"], T, '            raise InvalidCDSIntervalError("If CDS start is defined, CDS end must be defined")', "            cds_starts = None"),
    "c19-interval-unequal-lists-accepted": (["C19"], "inscripta/biocantor/gene/interval.py",
                                            '            raise ValidationException("Number of interval starts does not match number of interval ends")',
                                            "            starts, ends = starts[: len(ends)], ends[: len(starts)]"),
    "c19-variant-overlap-check-removed": (["C19"], V, '                raise LocationOverlapException("VariantInterval within a VariantIntervalCollection must not overlap")', "                pass"),
    "c19-variant-zero-length-accepted": (["C19"], V, "        if start == end:\n            raise EmptyLocationException(", "        if start == end and start < 0:\n            raise EmptyLocationException("),
    "c19-gene-duplicate-transcripts-accepted": (["C19"], G, '                raise DuplicateTranscriptError(f"Guid {tx.guid} found more than once in this GeneInterval")', "                pass"),
    "c19-collection-start-without-end-accepted": (["C19"], A, '            raise InvalidAnnotationError("If start is provided, end must also be provided.")', "            pass"),
    "c19-query-zero-length-accepted": (["C19"], A, '            raise InvalidQueryError("Cannot query a 0bp interval (start must not be the same as end).")', "            pass"),
    "c19-query-out-of-bounds-accepted": (["C19"], A, "        elif end > self.end:\n            raise InvalidQueryError(", "        elif end > self.end + 1:\n            raise InvalidQueryError("),
    # ---- a [0] on a possibly empty list ------------------------------------------------------------------------------
    "c19-gene-empty-transcripts-index": (["C19"], G, '        if not transcripts:\n            raise InvalidAnnotationError("GeneInterval must have transcripts")\n', ""),
    "c19-cds-frames-index-before-count-check": (["C19"], C, "        if len(frames_or_phases) != len(self._genomic_starts):\n",
                                                "        self._first_is_frame = isinstance(frames_or_phases[0], CDSFrame)\n        if len(frames_or_phases) != len(self._genomic_starts):\n"),
    # ---- inverted require_* helpers ----------------------------------------------------------------------------------
    "c19-require-location-has-parent-inverted": (["C19"], OV, "        if not location.parent:\n            raise NullParentException(\"Location must have non-null parent attribute",
                                                 "        if location.parent:\n            raise NullParentException(\"Location must have non-null parent attribute"),
    "c19-require-sequence-inverted": (["C19"], OV, "        if not location.parent.sequence:", "        if location.parent.sequence:"),
    "c19-require-parents-equal-inverted": (["C19"], OV, "        if is_error:\n            raise MismatchedParentException(", "        if not is_error:\n            raise MismatchedParentException("),
    "c19-require-locations-overlap-inverted": (["C19"], OV, "        if not location1.has_overlap(location2, match_strand=match_strand):\n            raise LocationOverlapException(\"Locations must overlap",
                                               "        if location1.has_overlap(location2, match_strand=match_strand):\n            raise LocationOverlapException(\"Locations must overlap"),
    "c19-assert-directional-noop": (["C19"], ST, '            raise InvalidStrandException("Strand {} does not have a defined direction".format(self))', "            pass"),
    # ---- scan_windows bounds -----------------------------------------------------------------------------------------
    "c19-scan-windows-window-ge-length": (["C19"], LO, "        if window_size > len(self):", "        if window_size >= len(self):"),
    "c19-scan-windows-range-overrun": (["C19"], LO, "        for curr_start in range(start_pos, len(self) - window_size + 1, step_size):",
                                       "        for curr_start in range(start_pos, len(self) - window_size + 2, step_size):"),
    "c19-scan-windows-zero-step-accepted": (["C19"], LO, "        if min(window_size, step_size) < 1:", "        if window_size < 1:"),
    # ---- "falsy but not None" / "same id, different content" (seeded changes C19-1..3 and their siblings) -------------
    "c19-parent-bound-check-truthiness": (["C19"], PA, "            if sequence is not None and location.end > len(sequence):", "            if sequence and location.end > len(sequence):"),
    "c19-from-single-intervals-ids-only": (["C19"], L, "            interval.parent.strip_location_info() if interval.parent else None for interval in intervals",
                                           "            interval.parent_id for interval in intervals"),
    "c19-equals-except-location-ignores-sequence": (["C19"], PA, "        if require_same_sequence and self.sequence != other.sequence:", "        if require_same_sequence and self.sequence is None != other.sequence is None:"),
    "c19-equals-except-location-ignores-type": (["C19"], PA, "        if self.sequence_type != other.sequence_type:\n            return False\n", ""),
    "c19-equals-except-location-ignores-grandparent": (["C19"], PA, "        if self.parent and other.parent and self.parent != other.parent:", "        if self.parent and other.parent and self.parent.id != other.parent.id and False:"),
    "c19-query-start-or-default": (["C19"], A, "        start = self.start if start is None else start", "        start = start or self.start"),
    "c19-collection-start-truthiness": (["C19"], A, "        elif end is None and start is not None:", "        elif end is None and start:"),
    "c19-sequence-parent-length-check-empty-data": (["C19"], SQ, "        self._len = len(self.sequence)\n", "        self._len = len(self.sequence)\n        validate_parent = validate_parent and self._len > 0\n"),
    "c19-unique-value-skips-falsy": (["C19"], PA, "    values = {x for x in values if x is not None}", "    values = {x for x in values if x}"),
    "c19-variant-zero-zero-accepted": (["C19"], V, "        if start == end:\n            raise EmptyLocationException(", "        if start and start == end:\n            raise EmptyLocationException("),
    # ---- lookups that only the API sweep drives (unknown guid) -------------------------------------------------------
    "c19-collection-guid-lookup-unguarded": (["C19"], A, "            child = self.guid_map.get(i)\n", "            child = self.guid_map[i]\n"),
    "c19-gene-guid-lookup-unguarded": (["C19"], G, "        txs = [self.guid_map[i] for i in ids if i in self.guid_map]", "        txs = [self.guid_map[i] for i in ids]"),
    # ---- reverted repairs / edge answers -----------------------------------------------------------------------------
    "c19-zero-width-at-3p-end-reverted": (["C19"], L, "            if relative_start == len(self):\n", "            if relative_start == len(self) + 1:\n"),
    "c19-3p-utr-full-length-guard-removed": (["C19"], T, "        cds_inclusive_end_on_transcript = self.cds_pos_to_transcript(len(self.cds.chunk_relative_location) - 1)",
                                             "        cds_inclusive_end_on_transcript = self.cds_pos_to_transcript(len(self.cds.chunk_relative_location))"),
    "c19-extend-absolute-negative-accepted": (["C19"], L, "        if min(extend_start, extend_end) < 0:\n            raise ValueError(\"Extension distances must be non-negative\")\n        return SingleInterval(",
                                              "        return SingleInterval("),
}
