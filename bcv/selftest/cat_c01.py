L = "inscripta/biocantor/location/location_impl.py"
MUTATIONS = {
    "c01-single-minus-rel2parent": (["C01"], L, "            return self.end - relative_pos - 1\n        raise InvalidStrandException", "            return self.end - relative_pos\n        raise InvalidStrandException"),
    "c01-single-minus-parent2rel": (["C01"], L, "            return self.end - parent_pos - 1", "            return self.end - parent_pos"),
    "c01-scan-blocks-no-reverse": (["C01"], L, "            yield from reversed(self.blocks)", "            yield from self.blocks"),
    "c01-rel-interval-strand": (["C01"], L, "            self.strand.relative_to(relative_strand),\n            parent=new_parent,", "            relative_strand,\n            parent=new_parent,"),
    "c01-location-relative-minmax": (["C01"], L, "rel_start, rel_end = min(rel_pos_1, rel_pos_2), max(rel_pos_1, rel_pos_2) + 1", "rel_start, rel_end = min(rel_pos_1, rel_pos_2), max(rel_pos_1, rel_pos_2)"),
    "c01-location-relative-strand": (["C01"], L, "rel_strand = self.strand.relative_to(other.strand)", "rel_strand = self.strand"),
    "c01-compound-rel2parent-minus": (["C01"], L, "return start + rel_pos if plus_strand else end - 1 - rel_pos", "return start + rel_pos if plus_strand else end - rel_pos"),
    "c01-parent2rel-bound": (["C01"], L, "        if parent_pos < self.start or parent_pos >= self.end:", "        if parent_pos < self.start or parent_pos > self.end:"),
    "c01-compound-remaining-end": (["C01"], L, "            if remaining_len_till_end < 1:", "            if remaining_len_till_end < 2:"),
    "c01-revert-f6": (["C01"], L, "            if relative_start == len(self):", "            if False:"),
    "c01-revert-f10": (["C01"], L, "        self.end = max(self._ends)", "        self.end = self._ends[-1]"),
    "c01-compound-new-strand": (["C01"], L, "        new_strand = relative_strand.relative_to(self.strand)\n", "        new_strand = relative_strand\n"),
    "c01-sort-minus-key": (["C01"], L, "blocks = sorted(blocks, key=lambda x: (x[0], -x[1]))", "blocks = sorted(blocks, key=lambda x: (-x[0], -x[1]))"),
}
