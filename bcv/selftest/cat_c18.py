"""Mutation catalogue of C18 (identifier / qualifier extraction, LOCUS_TAG grouping).  Run with the findings K30-K32
either repaired or listed as known, otherwise the unchanged tree already exits 1 and every mutation counts as caught."""
F = "inscripta/biocantor/io/features/__init__.py"
P = "inscripta/biocantor/io/genbank/parser.py"
G = "inscripta/biocantor/io/gff3/parser.py"
I = "inscripta/biocantor/gene/interval.py"
MUTATIONS = {
    # --- priority comparison / enum order -----------------------------------------------------------------------
    "c18-name-rank-compare-gt": (["C18"], F, "this_feature_key < feature_key:", "this_feature_key > feature_key:"),
    "c18-id-rank-compare-gt": (["C18"], F, "this_feature_id_key < feature_id_key:", "this_feature_id_key > feature_id_key:"),
    "c18-enum-name-order-swapped": (["C18"], F, "    STANDARD_NAME = 10\n    NAME = 15\n", "    STANDARD_NAME = 15\n    NAME = 10\n"),
    "c18-enum-gene-after-gene-name": (["C18"], F, "    GENE = 20\n    GENE_NAME = 30\n", "    GENE = 35\n    GENE_NAME = 30\n"),
    "c18-enum-id-before-feature-id": (["C18"], F, "    FEATURE_ID = 0\n    ID = 255\n", "    FEATURE_ID = 300\n    ID = 255\n"),
    "c18-first-value-not-chosen": (["C18"], F, "                feature_name = vals[0]\n", "                feature_name = vals[-1]\n"),
    # (the next two only apply once proposed_fixes/C18-rank0-key-is-none.diff is in the tree; until then muttest prints SKIP)
    "c18-revert-rank0-fix-name": (["C18"], F, "if feature_key is None or this_feature_key < feature_key:", "if not feature_key or this_feature_key < feature_key:"),
    "c18-revert-rank0-fix-id": (["C18"], F, "if feature_id_key is None or this_feature_id_key < feature_id_key:", "if not feature_id_key or this_feature_id_key < feature_id_key:"),
    # --- key matching ---------------------------------------------------------------------------------------------------
    "c18-name-ignorecase-dropped": (["C18"], F, 'for k in FEATURE_INTERVAL_NAME_QUALIFIERS)), re.IGNORECASE', 'for k in FEATURE_INTERVAL_NAME_QUALIFIERS)), 0'),
    "c18-id-ignorecase-dropped": (["C18"], F, 'for k in FEATURE_INTERVAL_ID_QUALIFIERS)), re.IGNORECASE', 'for k in FEATURE_INTERVAL_ID_QUALIFIERS)), 0'),
    "c18-name-regex-end-anchor-dropped": (["C18"], F, 'f"^{k}$" for k in FEATURE_INTERVAL_NAME_QUALIFIERS', 'f"^{k}" for k in FEATURE_INTERVAL_NAME_QUALIFIERS'),
    "c18-id-regex-end-anchor-dropped": (["C18"], F, 'f"^{k}$" for k in FEATURE_INTERVAL_ID_QUALIFIERS', 'f"^{k}" for k in FEATURE_INTERVAL_ID_QUALIFIERS'),
    "c18-name-set-loses-operon": (["C18"], F, '"gene_name", "label", "operon"}', '"gene_name", "label"}'),
    # --- note fallback ----------------------------------------------------------------------------------------------------
    "c18-note-fallback-ignores-id": (["C18"], F, 'if not feature_name and not feature_id and "note" in feature_qualifiers:', 'if not feature_name and "note" in feature_qualifiers:'),
    "c18-note-last-word": (["C18"], F, 'feature_qualifiers["note"][0].split()[0]', 'feature_qualifiers["note"][0].split()[-1]'),
    "c18-note-punctuation-kept": (["C18"], F, ".split()[0].strip(string.punctuation)", ".split()[0].strip()"),
    # --- feature types ------------------------------------------------------------------------------------------------------
    "c18-types-identifier-dropped": (["C18"], F, 'FEATURE_TYPE_IDENTIFIERS = {"_class", "gbkey", "_type"}', 'FEATURE_TYPE_IDENTIFIERS = {"_class", "gbkey"}'),
    "c18-types-ignorecase-dropped": (["C18"], F, '"|".join(k for k in FEATURE_TYPE_IDENTIFIERS)), re.IGNORECASE', '"|".join(k for k in FEATURE_TYPE_IDENTIFIERS)), 0'),
    "c18-types-first-value-only": (["C18"], F, "            feature_types.update(vals)", "            feature_types.add(vals[0])"),
    "c18-types-search-to-match": (["C18"], F, "if re.search(FEATURE_TYPE_IDENTIFIERS_REGEX, key):", "if re.match(FEATURE_TYPE_IDENTIFIERS_REGEX, key):"),
    # --- merging / sorting ------------------------------------------------------------------------------------------------
    "c18-merge-sorted-dropped": (["C18"], F, "    return {key: sorted(vals) for key, vals in merged.items()}", "    return {key: list(vals) for key, vals in merged.items()}"),
    "c18-merge-second-dict-ignored": (["C18"], F, "itertools.chain(qualifiers.items(), other_qualifiers.items()):", "itertools.chain(qualifiers.items()):"),
    "c18-merge-last-dict-overwrites": (["C18"], F, "        merged[key].update(vals)\n    return", "        merged[key] = set(vals)\n    return"),
    "c18-filter-sorted-dropped": (["C18"], G, "key: sorted(vals) for key, vals in qualifiers.items() if not re.match(BIOCANTOR_QUALIFIERS_REGEX, key)",
                                  "key: list(vals) for key, vals in qualifiers.items() if not re.match(BIOCANTOR_QUALIFIERS_REGEX, key)"),
    "c18-interval-merge-overwrites": (["C18"], I, "                merged[key].update(vals)\n        return merged", "                merged[key] = set(vals)\n        return merged"),
    "c18-interval-export-sorted-dropped": (["C18"], I, "            return {key: sorted(vals) for key, vals in self.qualifiers.items()}", "            return {key: list(vals) for key, vals in self.qualifiers.items()}"),
    # --- LOCUS_TAG grouping ------------------------------------------------------------------------------------------------
    "c18-locus-tag-sort-dropped": (["C18"], P, "            locus_tag_sorted_gene_filtered_features = sorted(\n                gene_filtered_features, key=lambda f: f.qualifiers[KnownQualifiers.LOCUS_TAG.value]\n            )",
                                   "            locus_tag_sorted_gene_filtered_features = list(gene_filtered_features)"),
    "c18-locus-tag-sort-key-coarse": (["C18"], P, "            locus_tag_sorted_gene_filtered_features = sorted(\n                gene_filtered_features, key=lambda f: f.qualifiers[KnownQualifiers.LOCUS_TAG.value]\n            )",
                                      "            locus_tag_sorted_gene_filtered_features = sorted(\n                gene_filtered_features, key=lambda f: f.qualifiers[KnownQualifiers.LOCUS_TAG.value][0][:2]\n            )"),
    "c18-locus-tag-group-key-prefix": (["C18"], P, "            key=lambda f: f.qualifiers[KnownQualifiers.LOCUS_TAG.value][0],\n        ):\n            gene_feature = None",
                                       "            key=lambda f: f.qualifiers[KnownQualifiers.LOCUS_TAG.value][0][:3],\n        ):\n            gene_feature = None"),
    "c18-last-cds-in-file-wins": (["C18"], P, "                        gene_feature = feature\n                elif feature.type in TranscriptFeature.types:\n                    transcript_features.append(feature)\n                elif feature.type in CDSFeature.types:\n                    cds_features.append(feature)",
                                  "                        gene_feature = feature\n                elif feature.type in TranscriptFeature.types:\n                    transcript_features.append(feature)\n                elif feature.type in CDSFeature.types:\n                    cds_features = [feature]"),
}
