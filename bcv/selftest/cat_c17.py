W = "inscripta/biocantor/io/ncbi/tbl_writer.py"
MUTATIONS = {
    # ---- TblFeature._location_to_str ---------------------------------------------------------------------------------
    "c17-minus-no-block-order-reversal": (["C17"], W, "            s = [b[::-1] for b in s][::-1]", "            s = [b[::-1] for b in s]"),
    "c17-minus-no-coordinate-flip": (["C17"], W, "            s = [b[::-1] for b in s][::-1]", "            s = [b for b in s][::-1]"),
    "c17-start-not-one-based": (["C17"], W, "        s = [[b.start + 1, b.end] for b in self.location.blocks]", "        s = [[b.start, b.end] for b in self.location.blocks]"),
    "c17-strand-test-inverted": (["C17"], W, "        if self.location.strand == Strand.MINUS:\n            # flip every block", "        if self.location.strand == Strand.PLUS:\n            # flip every block"),
    "c17-5p-mark-on-last-interval": (["C17"], W, '            s[0][0] = f"<{s[0][0]}"', '            s[-1][0] = f"<{s[-1][0]}"'),
    "c17-3p-mark-on-first-interval": (["C17"], W, '            s[-1][1] = f">{s[-1][1]}"', '            s[0][1] = f">{s[0][1]}"'),
    # ---- CDSTblFeature -----------------------------------------------------------------------------------------------
    "c17-end-mod3-eq": (["C17"], W, "len(transcript.cds) % 3 != (codon_start - 1) or", "len(transcript.cds) % 3 == (codon_start - 1) or"),
    "c17-end-ignores-stop": (["C17"], W, "(codon_start - 1) or not transcript.cds.has_valid_stop", "(codon_start - 1)"),
    "c17-end-ignores-length": (["C17"], W, "end_is_incomplete = len(transcript.cds) % 3 != (codon_start - 1) or not transcript.cds.has_valid_stop",
                               "end_is_incomplete = not transcript.cds.has_valid_stop"),
    "c17-start-negation-removed": (["C17"], W, "start_is_incomplete = not transcript.cds.has_start_codon_in_specific_translation_table(translation_table)",
                                   "start_is_incomplete = transcript.cds.has_start_codon_in_specific_translation_table(translation_table)"),
    "c17-start-ignores-table": (["C17"], W, "start_is_incomplete = not transcript.cds.has_start_codon_in_specific_translation_table(translation_table)",
                                "start_is_incomplete = not transcript.cds.has_start_codon_in_specific_translation_table()"),
    "c17-codon-start-zero-based": (["C17"], W, "        codon_start = next(transcript.cds._frame_iter()).value + 1\n        qualifiers[\"codon_start\"] = [codon_start]",
                                   "        codon_start = next(transcript.cds._frame_iter()).value + 1\n        qualifiers[\"codon_start\"] = [codon_start - 1]"),
    "c17-mrna-start-mark-dropped": (["C17"], W, "            start_is_incomplete=cds_feature.start_is_incomplete,", "            start_is_incomplete=False,"),
    "c17-mrna-lists-cds-blocks": (["C17"], W, "            transcript._location,\n", "            transcript.cds_location,\n"),
    # ---- GeneTblFeature / TblGene ------------------------------------------------------------------------------------
    "c17-pseudo-all-transcripts": (["C17"], W, "is_pseudo = any(tx.has_in_frame_stop for tx in gene.transcripts)", "is_pseudo = all(tx.has_in_frame_stop for tx in gene.transcripts)"),
    "c17-pseudo-never": (["C17"], W, "        if gene.is_coding:\n            # if this gene is coding, and there is an in-frame stop", "        if not gene.is_coding:\n            # if this gene is coding, and there is an in-frame stop"),
    "c17-gene-strand-not-reset": (["C17"], W, "        location = gene.chromosome_location.reset_strand(strand)", "        location = gene.chromosome_location"),
    "c17-cds-blocks-not-merged": (["C17"], W, "                    tx.cds = tx.cds.optimize_and_combine_blocks()", "                    pass"),
    "c17-table-not-forwarded": (["C17"], W, "                cds_tbl = CDSTblFeature(tx, self.gene_tbl, submitter_lab_name, translation_table)",
                                "                cds_tbl = CDSTblFeature(tx, self.gene_tbl, submitter_lab_name, TranslationTable.DEFAULT)"),
    "c17-trna-key-lost": (["C17"], W, "            elif gene.gene_type == Biotype.tRNA:", "            elif gene.gene_type == Biotype.tmRNA:"),
    # ---- collection_to_tbl -------------------------------------------------------------------------------------------
    "c17-locus-tag-advance-after-use": (["C17"], W, "            locus_tag_offset += locus_tag_jump_size\n            locus_tag = f\"{locus_tag_prefix}_{locus_tag_offset}\"\n",
                                        "            locus_tag = f\"{locus_tag_prefix}_{locus_tag_offset}\"\n            locus_tag_offset += locus_tag_jump_size\n"),
    "c17-locus-tag-step-fixed": (["C17"], W, "            locus_tag_offset += locus_tag_jump_size\n", "            locus_tag_offset += 5\n"),
    "c17-locus-tag-restarts-per-collection": (["C17"], W, "        if collection.sequence_name is None:\n", "        locus_tag_offset = 0\n        if collection.sequence_name is None:\n"),
    "c17-header-collection-name": (["C17"], W, '        print(f">Features {collection.sequence_name}", file=tbl_file_handle)', '        print(f">Features {collection.name}", file=tbl_file_handle)'),
    "c17-flavour-inverted": (["C17"], W, "if genbank_flavor == GenbankFlavor.PROKARYOTIC and type(obj) == MRNATblFeature:", "if genbank_flavor == GenbankFlavor.EUKARYOTIC and type(obj) == MRNATblFeature:"),
    "c17-seed-not-applied": (["C17"], W, "        random.seed(random_seed)\n", "        random.seed()\n"),
}
