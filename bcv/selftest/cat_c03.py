L = "inscripta/biocantor/location/location_impl.py"
S = "inscripta/biocantor/sequence/sequence.py"
A = "inscripta/biocantor/sequence/alphabet.py"
MUTATIONS = {
    # ---- SingleInterval.extract_sequence
    "c03-single-minus-no-revcomp": (["C03"], L, "                    validate_alphabet=False,\n                ).reverse_complement()", "                    validate_alphabet=False,\n                )"),
    "c03-single-slice-end": (["C03"], L, "seq_plus_strand = str(self.parent.sequence)[self.start : self.end]", "seq_plus_strand = str(self.parent.sequence)[self.start : self.end - 1]"),
    "c03-single-slice-start": (["C03"], L, "seq_plus_strand = str(self.parent.sequence)[self.start : self.end]", "seq_plus_strand = str(self.parent.sequence)[self.start + 1 : self.end]"),
    # ---- CompoundInterval.extract_sequence
    "c03-compound-minus-no-reversed": (["C03"], L, "(interval.extract_sequence() for interval in reversed(self._single_intervals))", "(interval.extract_sequence() for interval in self._single_intervals)"),
    "c03-compound-append-order": (["C03"], L, "            block_seqs = (interval.extract_sequence() for interval in self._single_intervals)\n            return reduce(lambda seq1, seq2: seq1.append(seq2), block_seqs)",
                                  "            block_seqs = (interval.extract_sequence() for interval in self._single_intervals)\n            return reduce(lambda seq1, seq2: seq2.append(seq1), block_seqs)"),
    # ---- reverse_strand
    "c03-single-reverse-strand": (["C03"], L, "    def reverse_strand(self) -> \"SingleInterval\":\n        return self.reset_strand(self.strand.reverse())", "    def reverse_strand(self) -> \"SingleInterval\":\n        return self.reset_strand(self.strand)"),
    # ---- Sequence.__getitem__
    "c03-getitem-stop-slip": (["C03"], S, "                rel_end = key.stop\n", "                rel_end = key.start\n"),
    "c03-getitem-index-end": (["C03"], S, "                rel_end = key + 1\n", "                rel_end = key + 2\n"),
    "c03-getitem-relative-strand": (["C03"], S, "relative_start=rel_start, relative_end=rel_end, relative_strand=Strand.PLUS", "relative_start=rel_start, relative_end=rel_end, relative_strand=Strand.MINUS"),
    "c03-getitem-keeps-old-location": (["C03"], S, "            new_parent = self.parent.reset_location(new_parent_location)\n        else:\n            new_parent = self.parent\n\n        return Sequence(\n            subseq,",
                                       "            new_parent = self.parent\n        else:\n            new_parent = self.parent\n\n        return Sequence(\n            subseq,"),
    # (the same two slips as they read once /verif/proposed_fixes/C03-*.diff are applied; whichever text is absent is SKIPped)
    "c03-getitem-stop-slip-postfix": (["C03"], S, "                rel_end = len(self) if key.stop is None else key.stop\n", "                rel_end = len(self) if key.stop is None else key.start\n"),
    "c03-getitem-open-start-postfix": (["C03"], S, "                rel_start = 0 if key.start is None else key.start\n", "                rel_start = 1 if key.start is None else key.start\n"),
    "c03-getitem-step-check-postfix": (["C03"], S, "                if key.step not in (None, 1):\n", "                if False:\n"),
    "c03-append-location-other-only-postfix": (["C03"], S, "                new_location = self.parent.location.union_preserve_overlaps(other.parent.location)\n", "                new_location = other.parent.location\n"),
    "c03-append-revert-preserve-postfix": (["C03"], S, "                new_location = self.parent.location.union_preserve_overlaps(other.parent.location)\n", "                new_location = self.parent.location.union(other.parent.location)\n"),
    # ---- Sequence.reverse_complement
    "c03-revcomp-location-not-reversed": (["C03"], S, "location = self.location_on_parent.reverse_strand() if self.location_on_parent else None", "location = self.location_on_parent if self.location_on_parent else None"),
    "c03-revcomp-no-reverse": (["C03"], S, "seq_data = \"\".join((rc_map[c] for c in reversed(str(self))))", "seq_data = \"\".join((rc_map[c] for c in str(self)))"),
    # ---- Sequence.append
    "c03-append-data-order": (["C03"], S, "new_seq_data = \"{}{}\".format(str(self), str(other))", "new_seq_data = \"{}{}\".format(str(other), str(self))"),
    "c03-append-plus-order-check": (["C03"], S, "if self.parent.strand == Strand.PLUS and self.parent.location.end > other.parent.location.start:", "if self.parent.strand == Strand.PLUS and self.parent.location.end < other.parent.location.start:"),
    "c03-append-minus-order-check": (["C03"], S, "if self.parent.strand == Strand.MINUS and self.parent.location.start < other.parent.location.end:", "if self.parent.strand == Strand.MINUS and self.parent.location.start <= other.parent.location.end:"),
    "c03-append-location-other-only": (["C03"], S, "                new_location = self.parent.location.union(other.parent.location)\n", "                new_location = other.parent.location\n"),
    # ---- complement tables
    "c03-comp-extended-K": (["C03"], A, "    Alphabet.NT_EXTENDED: {\n        \"A\": \"T\",\n        \"a\": \"t\",\n        \"T\": \"A\",\n        \"t\": \"a\",\n        \"U\": \"A\",\n        \"u\": \"a\",\n        \"G\": \"C\",\n        \"g\": \"c\",\n        \"C\": \"G\",\n        \"c\": \"g\",\n        \"Y\": \"R\",\n        \"y\": \"r\",\n        \"R\": \"Y\",\n        \"r\": \"y\",\n        \"S\": \"S\",\n        \"s\": \"s\",\n        \"W\": \"W\",\n        \"w\": \"w\",\n        \"K\": \"M\",",
                            "    Alphabet.NT_EXTENDED: {\n        \"A\": \"T\",\n        \"a\": \"t\",\n        \"T\": \"A\",\n        \"t\": \"a\",\n        \"U\": \"A\",\n        \"u\": \"a\",\n        \"G\": \"C\",\n        \"g\": \"c\",\n        \"C\": \"G\",\n        \"c\": \"g\",\n        \"Y\": \"R\",\n        \"y\": \"r\",\n        \"R\": \"Y\",\n        \"r\": \"y\",\n        \"S\": \"S\",\n        \"s\": \"s\",\n        \"W\": \"W\",\n        \"w\": \"w\",\n        \"K\": \"K\","),
    "c03-comp-gapped-lower-b": (["C03"], A, "        \"b\": \"v\",\n        \"D\": \"H\",\n        \"d\": \"h\",\n        \"H\": \"D\",\n        \"h\": \"d\",\n        \"V\": \"B\",\n        \"v\": \"b\",\n        \"N\": \"N\",\n        \"n\": \"n\",\n        \"-\": \"-\",",
                                "        \"b\": \"V\",\n        \"D\": \"H\",\n        \"d\": \"h\",\n        \"H\": \"D\",\n        \"h\": \"d\",\n        \"V\": \"B\",\n        \"v\": \"b\",\n        \"N\": \"N\",\n        \"n\": \"n\",\n        \"-\": \"-\","),
    "c03-comp-strict-lower-g": (["C03"], A, "\"g\": \"c\", \"T\": \"A\", \"t\": \"a\"},", "\"g\": \"g\", \"T\": \"A\", \"t\": \"a\"},"),
    "c03-comp-unknown-n": (["C03"], A, "        \"t\": \"a\",\n        \"N\": \"N\",\n        \"n\": \"n\",\n    },\n    Alphabet.NT_EXTENDED_GAPPED", "        \"t\": \"a\",\n        \"N\": \"N\",\n        \"n\": \"N\",\n    },\n    Alphabet.NT_EXTENDED_GAPPED"),
    "c03-comp-strict-gapped-gap": (["C03"], A, "        \"t\": \"a\",\n        \"-\": \"-\",\n    },\n    Alphabet.NT_STRICT_UNKNOWN", "        \"t\": \"a\",\n        \"-\": \"A\",\n    },\n    Alphabet.NT_STRICT_UNKNOWN"),
    "c03-comp-extended-u": (["C03"], A, "    Alphabet.NT_EXTENDED: {\n        \"A\": \"T\",\n        \"a\": \"t\",\n        \"T\": \"A\",\n        \"t\": \"a\",\n        \"U\": \"A\",\n        \"u\": \"a\",", "    Alphabet.NT_EXTENDED: {\n        \"A\": \"T\",\n        \"a\": \"t\",\n        \"T\": \"A\",\n        \"t\": \"a\",\n        \"U\": \"A\",\n        \"u\": \"A\","),
}
