"""Mutation catalogue for C13 (anchored mechanisms: alternative sequence, single / collection lift-over, incorporate_variants
on feature / transcript / CDS / gene / collections, haplotype map, VCF conversion).  Every mutation is a one-spot edit that
keeps the code importable.  The recorded finding K1 must not hide any of them: each is observable on single variants or
on variant sets the K1 classifier does not cover."""
V = "inscripta/biocantor/gene/variants.py"
F = "inscripta/biocantor/gene/feature.py"
T = "inscripta/biocantor/gene/transcript.py"
C = "inscripta/biocantor/gene/cds.py"
GN = "inscripta/biocantor/gene/gene.py"
CO = "inscripta/biocantor/gene/collections.py"
P = "inscripta/biocantor/io/vcf/parser.py"

MUTATIONS = {
    # --- alternative sequence -------------------------------------------------------------------------------------
    "c13-single-alt-slice-start-twice": (["C13"], V, "original_sequence_str[self.chunk_relative_location.end :],",
                                         "original_sequence_str[self.chunk_relative_location.start :],"),
    "c13-collection-alt-tail-from-start": (["C13"], V, "original_sequence_str[self.variant_intervals[-1].chunk_relative_location.end :]",
                                           "original_sequence_str[self.variant_intervals[-1].chunk_relative_location.start :]"),
    "c13-collection-alt-between-edits": (["C13"], V, "curr_edit.chunk_relative_location.end : next_edit.chunk_relative_location.start",
                                         "curr_edit.chunk_relative_location.start : next_edit.chunk_relative_location.start"),
    "c13-single-parent-keeps-reference-sequence": (
        ["C13"], V,
        "seq_to_parent(str(self.alternative_genomic_sequence))\n        return self._parent_with_alternative_sequence\n\n    @property\n    def length_difference",
        "seq_to_parent(str(self.chunk_relative_location.parent.sequence))\n        return self._parent_with_alternative_sequence\n\n    @property\n    def length_difference"),
    "c13-collection-parent-truncated-sequence": (
        ["C13"], V,
        "seq_to_parent(str(self.alternative_genomic_sequence))\n        return self._parent_with_alternative_sequence\n\n    def lift_over_location",
        "seq_to_parent(str(self.alternative_genomic_sequence)[1:])\n        return self._parent_with_alternative_sequence\n\n    def lift_over_location"),
    # --- single-variant lift --------------------------------------------------------------------------------------
    "c13-length-difference-sign": (["C13"], V, "return len(self.sequence) - len(self.chromosome_location)",
                                   "return len(self.chromosome_location) - len(self.sequence)"),
    "c13-lift-insertion-start-sign": (["C13"], V, "new_start = old_start if old_start < self.chromosome_location.end else old_start + len_diff",
                                      "new_start = old_start if old_start < self.chromosome_location.end else old_start - len_diff"),
    "c13-lift-insertion-end-le": (["C13"], V, "new_end = old_end if old_end < self.chromosome_location.end else old_end + len_diff",
                                  "new_end = old_end if old_end <= self.chromosome_location.end else old_end + len_diff"),
    "c13-lift-deletion-returns-block": (["C13"], V, "                return EmptyLocation()\n            len_left_side_deleted",
                                        "                return location\n            len_left_side_deleted"),
    "c13-lift-deletion-start-forgets-left-side": (["C13"], V, "                else old_start + len_diff + len_left_side_deleted",
                                                  "                else old_start + len_diff"),
    "c13-lift-deletion-end-max-to-min": (["C13"], V, "else old_end + max(len_diff, len_diff - old_end + self.chromosome_location.end)",
                                         "else old_end + min(len_diff, len_diff - old_end + self.chromosome_location.end)"),
    "c13-single-shortcut-on-start": (["C13"], V, "or location.end <= self.chromosome_location.start:", "or location.start <= self.chromosome_location.start:"),
    "c13-compound-keeps-only-empty": (["C13"], V, "                if lifted_interval is not EmptyLocation():\n                    lifted_single_intervals.append(lifted_interval)",
                                      "                if lifted_interval is not EmptyLocation() and len(lifted_interval) > 1:\n                    lifted_single_intervals.append(lifted_interval)"),
    # --- collection lift ------------------------------------------------------------------------------------------
    "c13-collection-single-skips-last-variant": (
        ["C13"], V, "            for variant in self.variant_intervals:\n                location = variant._lift_over_chromosome_location_single_interval(location)",
        "            for variant in self.variant_intervals[:-1]:\n                location = variant._lift_over_chromosome_location_single_interval(location)"),
    "c13-collection-compound-skips-first-variant": (
        ["C13"], V, "            for variant in self.variant_intervals:\n                location = variant._lift_over_chromosome_location_compound_interval(location)",
        "            for variant in self.variant_intervals[1:]:\n                location = variant._lift_over_chromosome_location_compound_interval(location)"),
    # --- incorporate_variants -------------------------------------------------------------------------------------
    "c13-transcript-cds-not-incorporated": (["C13"], T, "            new_cds = self.cds.incorporate_variants(variants)", "            new_cds = self.cds"),
    "c13-gene-children-not-incorporated": (["C13"], GN, "new_transcripts = [tx.incorporate_variants(variants) for tx in self.transcripts]",
                                           "new_transcripts = [tx for tx in self.transcripts]"),
    "c13-feature-collection-drops-child": (["C13"], F, "new_features = [feature.incorporate_variants(variants) for feature in self.feature_intervals]",
                                           "new_features = [feature.incorporate_variants(variants) for feature in self.feature_intervals[:1]]"),
    "c13-haplotype-map-ignores-overlap": (["C13"], CO, "                    if gene_or_feature.chunk_relative_location.has_overlap(variant_collection.chunk_relative_location):",
                                          "                    if True:"),
    "c13-annotation-collection-genes-not-incorporated": (["C13"], CO, "        new_genes = [tx.incorporate_variants(variants) for tx in self.genes]",
                                                         "        new_genes = [tx for tx in self.genes]"),
    "c13-cds-new-frames-always-zero": (["C13"], C, "        return fn(\n            new_loc,\n            cds_frames=new_frames,",
                                       "        return fn(\n            new_loc,\n            cds_frames=CDSInterval.construct_frames_from_location(new_loc),"),
    "c13-revert-cds-start-frame-fix": (["C13"], C, "starting_frame = self.frames[-1] if self.strand == Strand.MINUS else self.frames[0]",
                                       "starting_frame = self.frames[0]"),
    # --- VCF ------------------------------------------------------------------------------------------------------
    "c13-vcf-zero-width-widened-by-two": (["C13"], P, "            if start == end:\n                end += 1", "            if start == end:\n                end += 2"),
    "c13-vcf-first-alt-only": (["C13"], P, "            for alt in seq_variant.ALT:", "            for alt in seq_variant.ALT[:1]:"),
    "c13-vcf-phased-split-per-variant": (["C13"], P, "            if phase_block is not None:", "            if phase_block is not None and len(phased_variants) == 1:"),
    "c13-vcf-collection-id": (["C13"], P, "                            variant_collection_id=str(phase_block),", "                            variant_collection_id=str(seq_id),"),
}
