"""Mutation catalogue of C12 (GenBank export / re-import).

Removed as equivalent on the property's domain (single-strand, one transcript per gene, gene -> [mRNA] -> CDS records):
  * dropping / re-keying `sorted(location.parts, key=lambda p: p.start)` in find_exon_interval / find_cds_interval:
    CompoundInterval sorts its blocks itself ("need not be sorted"), the parser-side sort is redundant;
  * `Strand.from_int(tx.strand)` -> gene strand in to_gene_model: identical for single-strand gene models;
  * CDS sorted before mRNA in _sort_features_by_position_and_type: a group is bucketed by type afterwards, order inside
    a group is irrelevant;
  * `if any(NonCodingTranscriptFeatures...)` guard of _group_sorted_features_by_type: needs a gene-less CDS following a
    non-coding gene, a file shape outside the quantifier.
"""
W = "inscripta/biocantor/io/genbank/writer.py"
P = "inscripta/biocantor/io/genbank/parser.py"
L = "inscripta/biocantor/location/location_impl.py"
MUTATIONS = {
    # ---- Location.to_biopython ------------------------------------------------------------------------------------
    # wrong strand on every exported block: with force_strand=True the writer's strand= kwarg repairs it, with
    # force_strand=False the transcripts are skipped as "strand mismatch" (the workload runs both)
    "c12-to-biopython-wrong-strand": (["C12"], L, "        return FeatureLocation(self.start, self.end, self.strand.value)",
                                      "        return FeatureLocation(self.start, self.end, -self.strand.value)"),
    "c12-compound-location-drops-last-block": (["C12"], L, "        blocks = [b.to_biopython() for b in self.blocks]\n        if len(blocks) == 1:",
                                               "        blocks = [b.to_biopython() for b in self.blocks[:-1]] or [self.blocks[0].to_biopython()]\n        if len(blocks) == 1:"),
    # ---- writer ------------------------------------------------------------------------------------------------------
    "c12-cds-record-gets-exon-blocks": (["C12"], W, "    location = transcript.cds.chunk_relative_location.to_biopython()",
                                        "    location = transcript.chunk_relative_location.to_biopython()"),
    "c12-translation-table-swapped": (["C12"], W, "TranslationTable.PROKARYOTE if genbank_type == GenbankFlavor.PROKARYOTIC else TranslationTable.DEFAULT",
                                      "TranslationTable.DEFAULT if genbank_type == GenbankFlavor.PROKARYOTIC else TranslationTable.PROKARYOTE"),
    "c12-update-translations-inverted": (["C12"], W, "    if update_translations:\n        # if the sequence has N's, we cannot translate",
                                         "    if not update_translations:\n        # if the sequence has N's, we cannot translate"),
    "c12-flavour-test-inverted": (["C12"], W, "if feat_type == TranscriptFeatures.CODING_TRANSCRIPT and genbank_type == GenbankFlavor.PROKARYOTIC:",
                                  "if feat_type == TranscriptFeatures.CODING_TRANSCRIPT and genbank_type == GenbankFlavor.EUKARYOTIC:"),
    "c12-child-locus-tag-is-symbol": (["C12"], W, "            transcript_qualifiers[KnownQualifiers.LOCUS_TAG.value] = [locus_tag]",
                                      "            transcript_qualifiers[KnownQualifiers.LOCUS_TAG.value] = [gene_symbol]"),
    "c12-gene-symbol-fallback-dropped": (["C12"], W, "        elif gene_or_feature.gene_id:\n            symbol = gene_or_feature.gene_id",
                                         "        elif gene_or_feature.gene_id:\n            symbol = None"),
    "c12-feat-interval-locus-tag-dropped": (["C12"], W, '        if locus_tag:\n            feature_qualifiers["locus_tag"] = [locus_tag]',
                                            '        if locus_tag:\n            feature_qualifiers["note"] = [locus_tag]'),
    "c12-protein-id-kept-on-mrna": (["C12"], W, '            if "protein_id" in feature.qualifiers:\n                del feature.qualifiers["protein_id"]',
                                    '            if "protein_id" in feature.qualifiers:\n                del transcript_qualifiers["protein_id"]'),
    # once the proposed fix C12-genbank-writer-emit-codon-start.diff is in /repo: taking it out again must be noticed
    "c12-revert-f12-codon-start": (["C12"], W, "    feature.qualifiers[KnownQualifiers.CODON_START.value] = [next(transcript.cds._frame_iter()).value + 1]\n", ""),
    "c12-f12-codon-start-zero-based": (["C12"], W, "[next(transcript.cds._frame_iter()).value + 1]", "[next(transcript.cds._frame_iter()).value]"),
    "c12-f12-codon-start-plus-strand-order": (["C12"], W, "[next(transcript.cds._frame_iter()).value + 1]", "[transcript.cds.frames[0].value + 1]"),
    # ---- parser: reading one record ----------------------------------------------------------------------------------------
    # (the literal DESIGN mutation; the parser's sort itself is redundant - CompoundInterval sorts its blocks - so dropping the
    # sort or changing its key is an equivalent mutant and is not catalogued, see the header)
    "c12-cds-parts-sorted-without-key": (["C12"], P, "        for part in sorted(self.cds_feature._seq_feature.location.parts, key=lambda p: p.start):",
                                         "        for part in sorted(self.cds_feature._seq_feature.location.parts):"),
    "c12-codon-start-mod3": (["C12"], P, "qualifiers.get(KnownQualifiers.CODON_START.value, [1])[0]) - 1", "qualifiers.get(KnownQualifiers.CODON_START.value, [1])[0]) % 3"),
    "c12-codon-start-default-2": (["C12"], P, "qualifiers.get(KnownQualifiers.CODON_START.value, [1])[0]) - 1", "qualifiers.get(KnownQualifiers.CODON_START.value, [2])[0]) - 1"),
    "c12-codon-start-ignored": (["C12"], P, "        frame = CDSFrame.from_int(frame)\n        frames = CDSInterval.construct_frames_from_location(cds_interval, frame)",
                                "        frame = CDSFrame.from_int(0)\n        frames = CDSInterval.construct_frames_from_location(cds_interval, frame)"),
    "c12-protein-id-from-product": (["C12"], P, "protein_id=tx.get_qualifier_from_tx_or_cds_features(KnownQualifiers.PROTEIN_ID.value)",
                                    "protein_id=tx.get_qualifier_from_tx_or_cds_features(KnownQualifiers.PRODUCT.value)"),
    "c12-gene-symbol-from-gene-id": (["C12"], P, "gene_symbol=cls._seq_feature.qualifiers.get(KnownQualifiers.GENE.value, [None])[0]",
                                     "gene_symbol=cls._seq_feature.qualifiers.get(KnownQualifiers.GENE_ID.value, [None])[0]"),
    "c12-cds-qualifier-lookup-skips-cds": (["C12"], P, "        if self.cds_feature:\n            if qualifier in self.cds_feature._seq_feature.qualifiers:",
                                           "        if self.cds_feature and False:\n            if qualifier in self.cds_feature._seq_feature.qualifiers:"),
    # ---- parser: grouping --------------------------------------------------------------------------------------------------
    "c12-locus-tag-grouping-keyed-on-gene": (["C12"], P, "            key=lambda f: f.qualifiers[KnownQualifiers.LOCUS_TAG.value][0],\n        ):\n            gene_feature = None",
                                             "            key=lambda f: f.qualifiers.get(KnownQualifiers.GENE.value, [''])[0],\n        ):\n            gene_feature = None"),
    "c12-sort-gene-after-children": (["C12"], P, "                x.type != GeneFeatures.GENE.value,\n                x.type != TranscriptFeatures.CODING_TRANSCRIPT.value,",
                                     "                x.type == GeneFeatures.GENE.value,\n                x.type != TranscriptFeatures.CODING_TRANSCRIPT.value,"),
    "c12-sorted-next-gene-does-not-reset": (["C12"], P, "            elif feature.type in GeneFeature.types:\n                yield group\n                group = [feature]",
                                            "            elif feature.type in GeneFeature.types:\n                yield group\n                group = []"),
    "c12-hybrid-collision-threshold": (["C12"], P, "            if len([f for f in features if f.type == GeneFeatures.GENE.value]) > 1:",
                                       "            if len([f for f in features if f.type == GeneFeatures.GENE.value]) > 2:"),
    "c12-hybrid-bad-features-dropped": (["C12"], P, "                list(itertools.chain(self.gene_filtered_features_without_locus_tag[i], bad_features))",
                                        "                list(itertools.chain(self.gene_filtered_features_without_locus_tag[i], bad_features[1:]))"),
    "c12-locus-tag-parser-sorts-by-gene": (["C12"], P, "            locus_tag_sorted_gene_filtered_features = sorted(\n                gene_filtered_features, key=lambda f: f.qualifiers[KnownQualifiers.LOCUS_TAG.value]\n            )",
                                           "            locus_tag_sorted_gene_filtered_features = sorted(\n                gene_filtered_features, key=lambda f: f.qualifiers.get(KnownQualifiers.GENE.value, [''])\n            )"),
}
