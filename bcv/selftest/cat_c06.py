T = "inscripta/biocantor/gene/transcript.py"
I = "inscripta/biocantor/gene/interval.py"
C = "inscripta/biocantor/gene/cds.py"
L = "inscripta/biocantor/location/location_impl.py"
MUTATIONS = {
    # reversion of the lead's fix cd02c45 (F6): zero-width request at the 3' end of a CompoundInterval raises again ->
    # get_3p_interval crashes when the CDS ends on the last transcribed base of a multi-exon transcript
    "c06-revert-f6": (["C06"], L,
                      "            if relative_start == len(self):\n"
                      "                # zero-width request at the 3' end: there is no base to map, answer with the 3' boundary\n"
                      "                # (SingleInterval answers the same request with an empty interval as well)\n"
                      "                self.strand.assert_directional()\n"
                      "                start_on_parent = self.start if self.strand == Strand.MINUS else self.end\n"
                      "            else:\n"
                      "                start_on_parent = self.relative_to_parent_pos(relative_start)\n",
                      "            start_on_parent = self.relative_to_parent_pos(relative_start)\n"),
    "c06-3p-no-plus1": (["C06"], T, "            cds_inclusive_end_on_transcript + 1, len(self._location), Strand.PLUS",
                        "            cds_inclusive_end_on_transcript, len(self._location), Strand.PLUS"),
    "c06-5p-plus1": (["C06"], T, "            0, cds_start_on_transcript, Strand.PLUS", "            0, cds_start_on_transcript + 1, Strand.PLUS"),
    "c06-3p-cds-last-index": (["C06"], T, "self.cds_pos_to_transcript(len(self.cds.chunk_relative_location) - 1)",
                              "self.cds_pos_to_transcript(len(self.cds.chunk_relative_location) - 2)"),
    "c06-aa-truediv": (["C06"], C, "        return self.sequence_pos_to_cds(pos) // 3", "        return self.sequence_pos_to_cds(pos) / 3"),
    "c06-cds2tx-uses-transcript-list": (["C06"], T, "        chr_pos = self.cds_pos_to_sequence(pos)", "        chr_pos = self.transcript_pos_to_sequence(pos)"),
    "c06-tx2cds-uses-transcript-list": (["C06"], T, "        return self.sequence_pos_to_cds(chr_pos)", "        return self.sequence_pos_to_transcript(chr_pos)"),
    "c06-seqpos2cds-wrapper": (["C06"], T, "        return self.cds.sequence_pos_to_cds(pos)", "        return self.sequence_pos_to_transcript(pos)"),
    "c06-seqivl2cds-wrapper": (["C06"], T, "        return self.cds.sequence_interval_to_cds(chr_start, chr_end, chr_strand)",
                               "        return self.sequence_interval_to_transcript(chr_start, chr_end, chr_strand)"),
    "c06-tx-chunk-ivl-wrapper": (["C06"], T, "        return self.chunk_relative_interval_to_feature(chr_start, chr_end, chr_strand)",
                                 "        return self.sequence_interval_to_feature(chr_start, chr_end, chr_strand)"),
    "c06-5p-noncoding-guard": (["C06"], T, "        if not self.is_coding:\n            raise NoncodingTranscriptError(\"No 5' UTR on a non-coding transcript\")\n", ""),
    "c06-feature-pos-chunk-uses-chromosome": (["C06"], I, "        return self.chunk_relative_location.relative_to_parent_pos(pos)",
                                              "        return self.chromosome_location.relative_to_parent_pos(pos)"),
    "c06-feature-ivl-drops-strand": (["C06"], I, "        return self.chromosome_location.relative_interval_to_parent_location(rel_start, rel_end, rel_strand)",
                                     "        return self.chromosome_location.relative_interval_to_parent_location(rel_start, rel_end, Strand.PLUS)"),
    "c06-seq-ivl-to-feature-drops-strand": (["C06"], I, "        i = SingleInterval(chr_start, chr_end, chr_strand, parent=loc.parent)",
                                            "        i = SingleInterval(chr_start, chr_end, Strand.PLUS, parent=loc.parent)"),
    "c06-span-uses-chunk": (["C06"], I, "        return self.chromosome_location._full_span_interval", "        return self.chunk_relative_location._full_span_interval"),
    "c06-gaps-use-chunk": (["C06"], I, "        return self.chromosome_location.gaps_location()", "        return self.chunk_relative_location.gaps_location()"),
    "c06-cds-chunkpos-uses-chromosome": (["C06"], C, "        return self.chunk_relative_location.parent_to_relative_pos(pos)",
                                         "        return self.chromosome_location.parent_to_relative_pos(pos)"),
    "c06-cds-ivl-chunk-uses-chromosome": (["C06"], C, "        return self.chunk_relative_location.relative_interval_to_parent_location(rel_start, rel_end, rel_strand)",
                                          "        return self.chromosome_location.relative_interval_to_parent_location(rel_start, rel_end, rel_strand)"),
    "c06-compound-parent-to-rel-skip-len": (["C06"], L, "                rel_pos += len(block)\n", "                rel_pos += len(block) - 1\n"),
    "c06-gap-start-max": (["C06"], L, "            gap_start = min(block1.end, block2.end)", "            gap_start = max(block1.end, block2.end)"),
}
