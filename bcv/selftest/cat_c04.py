"""Mutation catalogue for C04 (lift-over through nested coordinate systems, chunk lifts)."""
P = "inscripta/biocantor/parent/parent.py"
LO = "inscripta/biocantor/location/location.py"
LI = "inscripta/biocantor/location/location_impl.py"
GI = "inscripta/biocantor/gene/interval.py"
IO = "inscripta/biocantor/io/parser.py"

MUTATIONS = {
    # ---- Parent.lift_child_location_to_parent (per-block lift + union_preserve_overlaps)
    "c04-lift-strand-twice": (["C04"], P, "relative_interval_to_parent_location(block.start, block.end, block.strand)",
                              "relative_interval_to_parent_location(block.start, block.end, block.strand.relative_to(self.parent.location.strand))"),
    "c04-lift-child-strand-lost": (["C04"], P, "relative_interval_to_parent_location(block.start, block.end, block.strand)",
                                   "relative_interval_to_parent_location(block.start, block.end, Strand.PLUS)"),
    "c04-lift-union-not-preserving": (["C04"], P, "lambda location1, location2: location1.union_preserve_overlaps(location2), lifted_blocks",
                                      "lambda location1, location2: location1.union(location2), lifted_blocks"),
    "c04-lift-block-end-off-by-one": (["C04"], P, "relative_interval_to_parent_location(block.start, block.end, block.strand)",
                                      "relative_interval_to_parent_location(block.start, max(block.start, block.end - 1), block.strand)"),
    # ---- ancestor search (Parent.first_ancestor_of_type / has_ancestor_* / Location wrappers)
    "c04-location-first-ancestor-skips-parent": (["C04"], LO, "return self.parent.first_ancestor_of_type(sequence_type, include_self=True)",
                                                  "return self.parent.first_ancestor_of_type(sequence_type, include_self=False)"),
    "c04-parent-first-ancestor-skips-grandparent": (["C04"], P, "            return self.parent.first_ancestor_of_type(sequence_type)\n",
                                                     "            return self.parent.first_ancestor_of_type(sequence_type, include_self=False)\n"),
    "c04-parent-has-ancestor-type-skips": (["C04"], P, "return self.parent.has_ancestor_of_type(sequence_type, include_self=True)",
                                           "return self.parent.has_ancestor_of_type(sequence_type, include_self=False)"),
    "c04-parent-has-ancestor-sequence-skips": (["C04"], P, "return self.parent.has_ancestor_sequence(sequence, include_self=True)",
                                               "return self.parent.has_ancestor_sequence(sequence, include_self=False)"),
    "c04-first-ancestor-furthest": (["C04"], P, "        if include_self and self.sequence_type == sequence_type:\n            return self\n        if self.parent:\n            return self.parent.first_ancestor_of_type(sequence_type)\n",
                                    "        if self.parent and self.parent.has_ancestor_of_type(sequence_type):\n            return self.parent.first_ancestor_of_type(sequence_type)\n        if include_self and self.sequence_type == sequence_type:\n            return self\n"),
    # ---- Location.lift_over_to_first_ancestor_of_type / lift_over_to_sequence (recursion over ancestors)
    "c04-lift-sequence-stops-at-first-sequence": (["C04"], LO, "        if self.parent.sequence and self.parent.sequence == sequence:\n            return self\n",
                                                   "        if self.parent.sequence:\n            return self\n"),
    "c04-lift-sequence-no-contiguity-check": (["C04"], LO, "        if not self.is_contiguous:\n            raise ValueError(\"Location must be contiguous\")\n",
                                              "        if False:\n            raise ValueError(\"Location must be contiguous\")\n"),
    "c04-lift-type-one-level-only": (["C04"], LO, "        return lifted_to_grandparent.lift_over_to_first_ancestor_of_type(sequence_type)\n",
                                     "        return lifted_to_grandparent\n"),
    "c04-lift-type-no-ancestor-check": (["C04"], LO, "        except NoSuchAncestorException:\n            raise NoSuchAncestorException(\"Location has no ancestor of type {}\".format(sequence_type))\n",
                                        "        except NoSuchAncestorException:\n            return self\n"),
    # ---- the point maps the lift is composed of
    "c04-single-rel-interval-strand": (["C04"], LI, "            self.strand.relative_to(relative_strand),\n            parent=new_parent,",
                                       "            relative_strand,\n            parent=new_parent,"),
    "c04-compound-rel-interval-strand": (["C04"], LI, "        new_strand = relative_strand.relative_to(self.strand)\n", "        new_strand = relative_strand\n"),
    # ---- chunk constructors and the chunk lift
    "c04-chunk-offset-off-by-one": (["C04"], IO, "                location=SingleInterval(\n                    start,\n                    end,\n                    strand,",
                                    "                location=SingleInterval(\n                    start + 1,\n                    end + 1,\n                    strand,"),
    "c04-chunk-strand-ignored": (["C04"], IO, "                location=SingleInterval(\n                    start,\n                    end,\n                    strand,",
                                 "                location=SingleInterval(\n                    start,\n                    end,\n                    Strand.PLUS,"),
    "c04-chunk-outside-answered": (["C04"], GI, "                # information.\n                return EmptyLocation()\n",
                                   "                # information.\n                return SingleInterval(0, min(len(location), len(sequence_chunk)), location.strand, parent_or_seq_chunk_parent)\n"),
    "c04-chunk-relift-skipped": (["C04"], GI, "        if location.has_ancestor_of_type(SequenceType.SEQUENCE_CHUNK):\n            if not location.has_ancestor_of_type(SequenceType.CHROMOSOME):",
                                 "        if False:\n            if not location.has_ancestor_of_type(SequenceType.CHROMOSOME):"),
    "c04-chunk-no-chromosome-accepted": (["C04"], GI, "            if not parent_or_seq_chunk_parent.has_ancestor_of_type(SequenceType.CHROMOSOME):\n                raise NoSuchAncestorException(\n                    \"Must have a chromosome in the hierarchy if a sequence chunk is provided.\"\n                )\n",
                                         "            if not parent_or_seq_chunk_parent.has_ancestor_of_type(SequenceType.CHROMOSOME):\n                return location.reset_parent(parent_or_seq_chunk_parent)\n"),
    "c04-whole-parent-not-attached": (["C04"], GI, "        # since this is a whole genome (or something unknown), we don't need to lift anything up\n        return location.reset_parent(parent_or_seq_chunk_parent)\n",
                                      "        # since this is a whole genome (or something unknown), we don't need to lift anything up\n        return location\n"),
}
