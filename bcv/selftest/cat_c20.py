I = "inscripta/biocantor/gene/interval.py"
G = "inscripta/biocantor/gene/gene.py"
F = "inscripta/biocantor/gene/feature.py"
A = "inscripta/biocantor/gene/collections.py"
_KEY = "                key=lambda x: (-x[0], -x[1]),\n"
_CH = "        chain_iter = itertools.chain(self.genes, self.feature_collections, self.variant_collections)\n        return sorted(chain_iter, key=lambda x: x.start)"
_NV = "        chain_iter = itertools.chain(self.genes, self.feature_collections)\n        return sorted(chain_iter, key=lambda x: x.start)"
MUTATIONS = {
    # ---- _find_primary_feature (interval.py) ------------------------------------------------------------------
    "c20-primary-cds-sign": (["C20"], I, _KEY, "                key=lambda x: (x[0], -x[1]),\n"),
    "c20-primary-len-sign": (["C20"], I, _KEY, "                key=lambda x: (-x[0], x[1]),\n"),
    "c20-primary-levels-swapped": (["C20"], I, _KEY, "                key=lambda x: (-x[1], -x[0]),\n"),
    "c20-primary-no-len-level": (["C20"], I, _KEY, "                key=lambda x: (-x[0], 0),\n"),
    "c20-primary-last-of-ties": (["C20"], I, "                    for i, interval in enumerate(intervals)\n",
                                 "                    for i, interval in reversed(list(enumerate(intervals)))\n"),
    "c20-primary-take-last": (["C20"], I, "            primary_feature = intervals[interval_sizes[0][2]]", "            primary_feature = intervals[interval_sizes[-1][2]]"),
    "c20-primary-two-flags-accepted": (["C20"], I, "                if primary_feature:\n                    raise ValidationException",
                                       "                if False:\n                    raise ValidationException"),
    "c20-primary-flag-ignored": (["C20"], I, "        if primary_feature is None:\n            interval_sizes = sorted(", "        if True:\n            interval_sizes = sorted("),
    "c20-primary-flag-truthy-none": (["C20"], I, "        return self._is_primary_feature is True", "        return self._is_primary_feature is not False"),
    "c20-primary-cds-size-dropped": (["C20"], I, "[interval.cds_size if interval.interval_type == IntervalType.TRANSCRIPT else 0, len(interval), i]",
                                     "[0, len(interval), i]"),
    # ---- GeneInterval (gene.py) ------------------------------------------------------------------------------
    "c20-gene-start-max": (["C20"], G, "min(tx.start for tx in self.transcripts)", "max(tx.start for tx in self.transcripts)"),
    "c20-gene-end-min": (["C20"], G, "max(tx.end for tx in self.transcripts)", "min(tx.end for tx in self.transcripts)"),
    "c20-gene-end-last": (["C20"], G, "max(tx.end for tx in self.transcripts)", "self.transcripts[-1].end"),
    "c20-gene-coding-all": (["C20"], G, "return any(tx.is_coding for tx in self.transcripts)", "return all(tx.is_coding for tx in self.transcripts)"),
    "c20-gene-coding-primary": (["C20"], G, "return any(tx.is_coding for tx in self.transcripts)", "return self.primary_transcript.is_coding"),
    "c20-gene-merge-drops-last-block": (["C20"], G, "merged = reduce(lambda x, y: x.union(y), intervals)", "merged = reduce(lambda x, y: x.union(y), intervals[:-1] or intervals)"),
    "c20-gene-merged-cds-uses-exons": (["C20"], G, "                for i in tx.cds.chromosome_location.blocks:", "                for i in tx.chromosome_location.blocks:"),
    "c20-gene-merged-cds-primary-only": (["C20"], G, "            if tx.is_coding:\n                for i in tx.cds", "            if tx.is_coding and tx is self.primary_transcript:\n                for i in tx.cds"),
    "c20-gene-get-primary-first": (["C20"], G, "        return self.primary_transcript\n", "        return self.transcripts[0]\n"),
    "c20-gene-primary-cds-seq-spliced": (["C20"], G, "            return self.primary_transcript.get_cds_sequence()", "            return self.primary_transcript.get_spliced_sequence()"),
    "c20-gene-primary-protein-first": (["C20"], G, "            return self.primary_transcript.get_protein_sequence()", "            return self.transcripts[0].get_protein_sequence()"),
    "c20-gene-primary-cds-first-coding": (["C20"], G, "            return self.primary_transcript.cds\n", "            return next((t.cds for t in self.transcripts if t.is_coding), None)\n"),
    "c20-gene-primary-seq-last": (["C20"], G, "            return self.primary_transcript.get_spliced_sequence()", "            return self.transcripts[-1].get_spliced_sequence()"),
    # ---- FeatureIntervalCollection (feature.py) --------------------------------------------------------------
    "c20-fcoll-types-intersection": (["C20"], F, "set.union(*[x.feature_types for x in feature_intervals])", "set.intersection(*[x.feature_types for x in feature_intervals])"),
    "c20-fcoll-types-first": (["C20"], F, "set.union(*[x.feature_types for x in feature_intervals])", "set(feature_intervals[0].feature_types)"),
    "c20-fcoll-start-max": (["C20"], F, "min(f.start for f in self.feature_intervals)", "max(f.start for f in self.feature_intervals)"),
    "c20-fcoll-end-first": (["C20"], F, "max(f.end for f in self.feature_intervals)", "self.feature_intervals[0].end"),
    "c20-fcoll-merge-drops-last-block": (["C20"], F, "merged = reduce(lambda x, y: x.union(y), intervals)", "merged = reduce(lambda x, y: x.union(y), intervals[:-1] or intervals)"),
    "c20-fcoll-primary-seq-first": (["C20"], F, "            return self.get_primary_feature().get_spliced_sequence()", "            return self.feature_intervals[0].get_spliced_sequence()"),
    "c20-fcoll-get-primary-last": (["C20"], F, "        return self.primary_feature\n", "        return self.feature_intervals[-1]\n"),
    # ---- merges that de-duplicate children by their bounds (seeded change C20-3 and its feature-collection analogue) -
    "c20-gene-merge-dedup-by-bounds": (["C20"], G, "        for tx in self.transcripts:\n            for i in tx.chromosome_location.blocks:\n                intervals.append(i)\n",
                                       "        seen = set()\n        for tx in self.transcripts:\n            if (tx.start, tx.end, tx.strand) in seen:\n                continue\n"
                                       "            seen.add((tx.start, tx.end, tx.strand))\n            for i in tx.chromosome_location.blocks:\n                intervals.append(i)\n"),
    "c20-gene-merged-cds-dedup-by-bounds": (["C20"], G, "            if tx.is_coding:\n                for i in tx.cds.chromosome_location.blocks:\n                    intervals.append(i)\n",
                                            "            if tx.is_coding and not any(\n"
                                            "                o is not tx and o.is_coding and (o.cds.start, o.cds.end, o.strand) == (tx.cds.start, tx.cds.end, tx.strand)\n"
                                            "                for o in self.transcripts[: self.transcripts.index(tx)]\n            ):\n"
                                            "                for i in tx.cds.chromosome_location.blocks:\n                    intervals.append(i)\n"),
    "c20-fcoll-merge-dedup-by-bounds": (["C20"], F, "        for tx in self.feature_intervals:\n            for i in tx.chromosome_location.blocks:\n                intervals.append(i)\n",
                                        "        seen = set()\n        for tx in self.feature_intervals:\n            if (tx.start, tx.end, tx.strand) in seen:\n                continue\n"
                                        "            seen.add((tx.start, tx.end, tx.strand))\n            for i in tx.chromosome_location.blocks:\n                intervals.append(i)\n"),
    # ---- AnnotationCollection (collections.py) ---------------------------------------------------------------
    "c20-coll-children-unsorted": (["C20"], A, _CH, _CH.replace("sorted(chain_iter, key=lambda x: x.start)", "list(chain_iter)")),
    "c20-coll-children-by-end": (["C20"], A, _CH, _CH.replace("x.start", "x.end")),
    "c20-coll-children-descending": (["C20"], A, _CH, _CH.replace("x.start)", "-x.start)")),
    "c20-coll-nonvariant-unsorted": (["C20"], A, _NV, _NV.replace("sorted(chain_iter, key=lambda x: x.start)", "list(chain_iter)")),
    "c20-coll-len-genes-only": (["C20"], A, "        return len(self.feature_collections) + len(self.genes)", "        return len(self.genes)"),
    "c20-coll-is-empty-genes": (["C20"], A, "        return len(self) == 0", "        return len(self.genes) == 0"),
    "c20-coll-inferred-start-max": (["C20"], A, "                start = min(f.start for f in self.iter_children())", "                start = max(f.start for f in self.iter_children())"),
    "c20-coll-inferred-end-of-starts": (["C20"], A, "                end = max(f.end for f in self.iter_children())", "                end = max(f.start for f in self.iter_children()) + 1"),
    "c20-coll-parent-bounds-ignored": (["C20"], A, "                if chrom_parent.location:\n", "                if False and chrom_parent.location:\n"),
    "c20-coll-parent-bounds-overridden-by-children": (["C20"], A, "            if start is None and not self.is_empty:\n", "            if not self.is_empty:\n"),
}
