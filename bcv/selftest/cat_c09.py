"""Mutation catalogue for C09 (collection queries).  name -> ([ids], file, old text (unique), new text).

Removed as equivalent (never changes an answer, so no monitor can or should see them):
  * `my_bins and not any(...)` -> `not all(...)`  (DESIGN C09-M): a member contained in the range has every child contained, so
    every child's bin is in the query's bin set; only members that the exact predicate rejects anyway are skipped.
  * `bins(start + 1, end, ...)` for the query: bins() keeps the bin of position `stop` itself (inclusive stop, K6), and a contained
    member that starts on the last base of a finest bin is stored under the common ancestor bin, which stays in the set.
  * `if start == self.start and end == self.end` -> `if start == self.start` in _subset_parent: the result then re-uses the whole
    source parent - more sequence than the bounds, every base still right (latitude (j) of the check).
"""
_C = "inscripta/biocantor/gene/collections.py"
MUTATIONS = {
    # ---- _query_by_position: predicate, coding filter, bin shortcut ---------------------------------------------------
    "c09-strict-relaxed-swapped": (["C09"], _C, "        if completely_within:\n            coordinate_fn = query_loc.contains",
                                   "        if not completely_within:\n            coordinate_fn = query_loc.contains"),
    "c09-bin-shortcut-inverted": (["C09"], _C, "elif my_bins and not any(grandchild.bin in my_bins for grandchild in child):",
                                  "elif my_bins and any(grandchild.bin in my_bins for grandchild in child):"),
    "c09-bin-query-bins-of-start-only": (["C09"], _C, 'my_bins = bins(start, end, fmt="bed", one=False)', 'my_bins = bins(start, start + 1, fmt="bed", one=False)'),
    "c09-bins-range-no-plus1": (["C09"], "inscripta/biocantor/util/bins.py", "range(offset + start, offset + stop + 1)", "range(offset + start, offset + stop)"),
    "c09-coding-filter-inverted": (["C09"], _C, "if coding_only and not child.is_coding:", "if coding_only and child.is_coding:"),
    # ---- query_by_position: defaults, refusals, expansion ----------------------------------------------------------------
    "c09-default-completely-within": (["C09"], _C, "completely_within: Optional[bool] = True,\n        expand_location_to_children",
                                      "completely_within: Optional[bool] = False,\n        expand_location_to_children"),
    "c09-start-none-means-zero": (["C09"], _C, "start = self.start if start is None else start", "start = 0 if start is None else start"),
    "c09-end-bound-off-by-one": (["C09"], _C, "        elif end > self.end:\n            raise InvalidQueryError(f\"End", "        elif end > self.end + 1:\n            raise InvalidQueryError(f\"End"),
    "c09-empty-range-accepted": (["C09"], _C, "        elif start == end:\n            raise InvalidQueryError(\"Cannot query a 0bp", "        elif start == end and start < 0:\n            raise InvalidQueryError(\"Cannot query a 0bp"),
    "c09-expand-end-wrong-direction": (["C09"], _C, "                if g_or_fc.end > end:\n                    end = g_or_fc.end", "                if g_or_fc.end < end:\n                    end = g_or_fc.end"),
    "c09-expand-refusal-weakened": (["C09"], _C, "            if start < self.start or end > self.end:\n                raise InvalidQueryError(\n                    f\"Cannot expand",
                                    "            if start < self.start and end > self.end:\n                raise InvalidQueryError(\n                    f\"Cannot expand"),
    # ---- _subset_parent / _build_new_collection_from_query ----------------------------------------------------------------
    "c09-subset-sequence-slice-shifted": (["C09"], _C, "extract_sequence()[chunk_relative_start:chunk_relative_end]", "extract_sequence()[chunk_relative_start + 1:chunk_relative_end + 1]"),
    "c09-subset-end-edge-case-removed": (["C09"], _C, "        if end == self.end:\n            chunk_relative_end = (", "        if end == self.end + 1:\n            chunk_relative_end = ("),
    "c09-build-drops-variant-collections": (["C09"], _C, "variant_collections=[x.to_dict() for x in variants_to_keep],", "variant_collections=[],"),
    "c09-build-loses-completely-within-start": (["C09"], _C, "                start=start,\n                end=end,\n                completely_within=completely_within,\n            ),\n            parent_or_seq_chunk_parent=seq_chunk_parent,",
                                                "                start=self.start,\n                end=end,\n                completely_within=completely_within,\n            ),\n            parent_or_seq_chunk_parent=seq_chunk_parent,"),
    # ---- id queries ----------------------------------------------------------------------------------------------------------
    "c09-guid-query-skips-first-id": (["C09"], _C, "        for i in ids:\n            child = self.guid_map.get(i)", "        for i in ids[1:]:\n            child = self.guid_map.get(i)"),
    "c09-interval-guids-not-restricted": (["C09"], _C, "        genes_to_keep = [self.guid_map[x].query_by_guids(ids) for x in gene_guids_to_keep]\n        features_collections_to_keep = [self.guid_map[x].query_by_guids(ids) for x in features_collection_guids_to_keep]\n        variant_collections_to_keep",
                                          "        genes_to_keep = [self.guid_map[x] for x in gene_guids_to_keep]\n        features_collections_to_keep = [self.guid_map[x].query_by_guids(ids) for x in features_collection_guids_to_keep]\n        variant_collections_to_keep"),
    "c09-feature-interval-guids-take-genes": (["C09"], _C, "            if child.interval_type == IntervalType.FEATURE:\n                features_collection_guids_to_keep.add(child.guid)\n\n        features_collections_to_keep",
                                              "            if child.interval_type != IntervalType.VARIANT:\n                features_collection_guids_to_keep.add(child.guid)\n\n        features_collections_to_keep"),
    "c09-identifier-query-needs-all-ids": (["C09"], _C, "if ids & child.identifiers:", "if ids <= child.identifiers:"),
    "c09-gene-query-by-guids-new-guid": (["C09"], "inscripta/biocantor/gene/gene.py", "                sequence_guid=self.sequence_guid,\n                guid=self.guid,\n                parent_or_seq_chunk_parent=self.chunk_relative_location.parent,",
                                         "                sequence_guid=self.sequence_guid,\n                guid=None,\n                parent_or_seq_chunk_parent=self.chunk_relative_location.parent,"),
    "c09-fcoll-query-by-guids-keeps-all": (["C09"], "inscripta/biocantor/gene/feature.py", "features = [self.guid_map[i] for i in ids if i in self.guid_map]", "features = [self.guid_map[i] for i in self.guid_map if set(ids) & set(self.guid_map)]"),
}
