"""C07 mutation catalogue: one-token edits of the anchored chunk mechanisms (gene/interval.py lift-over and bounded
chromosome location, gene/cds.py chunk_relative_frames / window preparation / frame offset, transcript / collection
plumbing).  Vetted against a tree with the two proposed C07 fixes applied and K18 / K8 listed as known findings."""
I = "inscripta/biocantor/gene/interval.py"
C = "inscripta/biocantor/gene/cds.py"
T = "inscripta/biocantor/gene/transcript.py"
A = "inscripta/biocantor/gene/collections.py"
MUTATIONS = {
    # the chunk lift merges adjacent blocks: 0-bp CDS gaps are lost in the chunk-relative location
    "c07-lift-optimize-blocks": (["C07"], I, "                    location, optimize_blocks=False\n", "                    location, optimize_blocks=True\n"),
    # an interval with no base in the chunk becomes an error instead of an empty location
    "c07-no-overlap-not-swallowed": (["C07"], I, "                # information.\n                return EmptyLocation()\n", "                # information.\n                raise\n"),
    # chunk_relative_frames: distance of the first in-chunk exon from the 5' end
    "c07-frames-distance-skipped-exon": (["C07"], C, "                distance_from_start += len(genomic_exon)\n", "                distance_from_start += len(genomic_exon) + 1\n"),
    "c07-frames-distance-plus": (["C07"], C, "                    distance_from_start += intersection.start - genomic_exon.start\n",
                                 "                    distance_from_start += intersection.end - genomic_exon.start\n"),
    "c07-frames-distance-minus": (["C07"], C, "                    distance_from_start += genomic_exon.end - intersection.end\n",
                                  "                    distance_from_start += genomic_exon.end - intersection.start\n"),
    "c07-frames-fivep-phase": (["C07"], C, "        fivep_phase = next(self._frame_iter(chunk_relative_frames=False)).to_phase().value\n",
                               "        fivep_phase = next(self._frame_iter(chunk_relative_frames=False)).value\n"),
    # chunk_relative_frames reads the whole chromosome location instead of the part bounded by the chunk
    "c07-bounded-location-unbounded": (["C07"], I, "                return loc\n        elif self.chunk_relative_location.has_ancestor_of_type(SequenceType.CHROMOSOME):\n"
                                                   "            return self.lift_over_to_first_ancestor_of_type(SequenceType.CHROMOSOME)\n",
                                       "                return loc\n        elif self.chunk_relative_location.has_ancestor_of_type(SequenceType.CHROMOSOME):\n"
                                       "            return self.chromosome_location\n"),
    # _calculate_frame_offset: bases removed at the 5' end by the chunk
    "c07-frame-offset-minus-strand-end": (["C07"], C, "0, cleaned_location.parent_to_relative_pos(loc_on_chrom.end - 1), Strand.PLUS",
                                          "0, cleaned_location.parent_to_relative_pos(loc_on_chrom.start), Strand.PLUS"),
    "c07-frame-offset-phase-as-frame": (["C07"], C, "        offset = phase.to_frame().value\n        return offset\n", "        offset = phase.value\n        return offset\n"),
    # multi-exon chunk path forgets the offset
    "c07-multi-exon-chunk-offset-dropped": (["C07"], C, "            return chunk_relative_cleaned_location, offset\n        else:\n            offset = self._calculate_frame_offset(cleaned_location, relative_cleaned_location)\n",
                                            "            return chunk_relative_cleaned_location, 0\n        else:\n            offset = self._calculate_frame_offset(cleaned_location, relative_cleaned_location)\n"),
    # extract_sequence fast path reads the chromosome view
    "c07-fast-path-not-chunk-relative": (["C07"], C, "        location, offset = window_fn(relative_window=None, chunk_relative_coordinates=True)\n",
                                         "        location, offset = window_fn(relative_window=None, chunk_relative_coordinates=False)\n"),
    # dictionary form of a transcript takes the CDS blocks from the chunk-relative view
    "c07-to-dict-cds-from-chunk": (["C07"], T, "                cds_starts = self.cds._genomic_starts\n", "                cds_starts = [x.start for x in self.chunk_relative_cds_blocks]\n"),
    # the transcript constructor voids a CDS that has no base in the chunk (the anchored "CDS dropped when sliced out" branch made live)
    "c07-transcript-drops-sliced-out-cds": (["C07"], T, "            except LocationOverlapException:\n                self.cds = None\n",
                                            "            except LocationOverlapException:\n                self.cds = None\n            if self.cds is not None and self.cds.chunk_relative_location.is_empty:\n                self.cds = None\n"),
    # history dependence: once the chunk-relative codon tuple is cached, a chromosome-level answer is taken from it
    "c07-num-codons-from-cached-chunk-tuple": (["C07"], C, "        return len(self.chromosome_codon_locations)\n",
                                               "        return len(self.chunk_relative_codon_locations) if self._chunk_relative_codon_locations_cached else len(self.chromosome_codon_locations)\n"),
    # computed identifier of a leaf class digests chunk-relative coordinates (the K8 mechanism moved into CDSInterval)
    "c07-cds-guid-digests-chunk-blocks": (["C07"], C, "            self.guid = digest_object(\n                self._genomic_starts,\n                self._genomic_ends,\n                self.strand,\n                self.frames,\n",
                                          "            self.guid = digest_object(\n                [x.start for x in self._location.blocks] if not self._location.is_empty else [],\n                self._genomic_ends,\n                self.strand,\n                self.frames,\n"),
    # gene / feature collection location on the chunk
    "c07-collection-location-end": (["C07"], I, "        self._location = SingleInterval(start, end, Strand.PLUS)\n", "        self._location = SingleInterval(start, max(start, end - 1), Strand.PLUS)\n"),
    # a chunk-relative interval lifted again (query on a chunk-built collection) is not taken back to the chromosome first
    "c07-subset-parent-sequence-slice": (["C07"], A, "        seq_subset = self.chunk_relative_location.extract_sequence()[chunk_relative_start:chunk_relative_end]\n",
                                         "        seq_subset = self.chunk_relative_location.extract_sequence()[chunk_relative_start + 1 : chunk_relative_end] + self.chunk_relative_location.extract_sequence()[0:1]\n"),
    "c07-subset-parent-clamp": (["C07"], A, "            chunk_relative_end = (\n                self.lift_over_to_first_ancestor_of_type(SequenceType.CHROMOSOME).parent_to_relative_pos(end - 1) + 1\n            )\n",
                                "            chunk_relative_end = (\n                self.lift_over_to_first_ancestor_of_type(SequenceType.CHROMOSOME).parent_to_relative_pos(end - 1)\n            )\n"),
    # transcript start in chromosome coordinates taken from the chunk
    "c07-feature-chromosome-location-from-chunk": (["C07"], I, "            parent = self._parent_or_seq_chunk_parent.first_ancestor_of_type(SequenceType.CHROMOSOME)\n            return CompoundInterval(self._genomic_starts, self._genomic_ends, self._strand, parent)\n",
                                                   "            parent = self._parent_or_seq_chunk_parent.first_ancestor_of_type(SequenceType.CHROMOSOME)\n            return CompoundInterval(self._genomic_starts[:1], self._genomic_ends[:1], self._strand, parent) if self.is_chunk_relative else CompoundInterval(self._genomic_starts, self._genomic_ends, self._strand, parent)\n"),
}
