"""Mutation catalogue for C10 (history independence / operand immutability): realistic faults of the anchored state -
memo tables keyed too coarsely, cached values shared between objects or mutated by a later call, exports aliasing their
operands, accessors that change the object they are asked about.

NOTE: as long as the proposed fixes C10-*.diff are not applied in /repo the unchanged tree already violates C10
(F2, F3, sequence-type spelling), so `tools/muttest.py C10` reports every mutant as CAUGHT trivially.  The results quoted in
the builder's report were obtained with the same procedure on a scratch copy carrying the three proposed fixes (unmutated
copy: exit 0).  The two `c10-revert-*` entries only match once the fixes are in the tree (SKIP before)."""
L = "inscripta/biocantor/location/location_impl.py"
P = "inscripta/biocantor/parent/parent.py"
I = "inscripta/biocantor/gene/interval.py"
C = "inscripta/biocantor/gene/cds.py"
T = "inscripta/biocantor/gene/transcript.py"
A = "inscripta/biocantor/gene/collections.py"
K = "inscripta/biocantor/gene/codon.py"

MUTATIONS = {
    # chromosome_location memoised on the class instead of the instance: every later object answers with the first one's blocks
    "c10-chromosome-location-class-memo": (["C10"], I,
        "            parent = self._parent_or_seq_chunk_parent.first_ancestor_of_type(SequenceType.CHROMOSOME)\n"
        "            return CompoundInterval(self._genomic_starts, self._genomic_ends, self._strand, parent)\n",
        "            parent = self._parent_or_seq_chunk_parent.first_ancestor_of_type(SequenceType.CHROMOSOME)\n"
        "            cls = type(self)\n"
        "            if \"_chrom_memo\" not in cls.__dict__:\n"
        "                cls._chrom_memo = CompoundInterval(self._genomic_starts, self._genomic_ends, self._strand, parent)\n"
        "            return cls._chrom_memo\n"),
    # the codon-window memo keyed without the window: the second window asked gets the first window's codons
    "c10-codon-window-memo-ignores-window": (["C10"], C,
        "        location, offset = codon_fn(relative_window, chunk_relative_coordinates)\n",
        "        memo = self.__dict__.setdefault(\"_window_memo\", {})\n"
        "        if chunk_relative_coordinates not in memo:\n"
        "            memo[chunk_relative_coordinates] = codon_fn(relative_window, chunk_relative_coordinates)\n"
        "        location, offset = memo[chunk_relative_coordinates]\n"),
    # export_qualifiers hands out (and then completes in place) the object's own dictionary
    "c10-export-qualifiers-returns-own-dict": (["C10"], T,
        "        qualifiers = self._merge_qualifiers(parent_qualifiers)\n",
        "        qualifiers = self._merge_qualifiers(parent_qualifiers) if parent_qualifiers else self.qualifiers\n"),
    # a cached value mutated by a later call: scanning a minus-strand location reverses its cached block list in place
    "c10-scan-blocks-reverses-cached-list": (["C10"], L,
        "            yield from reversed(self.blocks)\n",
        "            self.blocks.reverse()\n            yield from list(self.blocks)\n"),
    # reset_strand re-uses the already materialised blocks of the source location (they carry the old strand)
    "c10-reset-strand-reuses-cached-blocks": (["C10"], L,
        "        return CompoundInterval(self._starts, self._ends, new_strand, self.parent)\n",
        "        r = CompoundInterval(self._starts, self._ends, new_strand, self.parent)\n"
        "        r._single_interval_store = self._single_interval_store\n        return r\n"),
    # reset_strand of a SingleInterval carries the source's cached sequence over
    "c10-single-reset-strand-keeps-cached-sequence": (["C10"], L,
        "        return SingleInterval(self.start, self.end, new_strand, parent=new_parent)\n",
        "        r = SingleInterval(self.start, self.end, new_strand, parent=new_parent)\n        r._sequence = self._sequence\n        return r\n"),
    # the merge writes the merged value sets back into the caller's parent_qualifiers dictionary
    "c10-merge-qualifiers-writes-into-argument": (["C10"], I,
        "                merged[key].update(vals)\n",
        "                merged[key].update(vals)\n                other_qualifiers[key] = merged[key]\n"),
    # a public accessor re-seats the object's location (in-place mutator behind a read-only question)
    "c10-liftover-accessor-reseats-location": (["C10"], I,
        "        return self._location.lift_over_to_first_ancestor_of_type(sequence_type)\n",
        "        self._location = self._location.lift_over_to_first_ancestor_of_type(sequence_type)\n        return self._location\n"),
    # the Codon registry keyed too coarsely: ATA re-initialises the shared ATG instance
    "c10-codon-registry-coarse-key": (["C10"], K,
        "        if clean_codon in cls._singletons_:\n            return cls._singletons_[clean_codon]\n        instance = super().__new__(cls)\n"
        "        cls._singletons_[clean_codon] = instance\n",
        "        if clean_codon[:2] in cls._singletons_:\n            return cls._singletons_[clean_codon[:2]]\n        instance = super().__new__(cls)\n"
        "        cls._singletons_[clean_codon[:2]] = instance\n"),
    # the protein memo ignores its arguments (truncation / translation table)
    "c10-protein-memo-ignores-arguments": (["C10"], T,
        "        return self.cds.translate(\n            truncate_at_in_frame_stop=truncate_at_in_frame_stop, translation_table=translation_table\n        )\n",
        "        if \"_protein_memo\" not in self.__dict__:\n            self._protein_memo = self.cds.translate(\n"
        "                truncate_at_in_frame_stop=truncate_at_in_frame_stop, translation_table=translation_table\n            )\n"
        "        return self._protein_memo\n"),
    # the position-query memo ignores the window
    "c10-position-query-memo-ignores-window": (["C10"], A,
        "            genes_to_keep, features_collections_to_keep, variant_collections_to_keep = self._query_by_position(\n"
        "                start, end, completely_within, coding_only\n            )\n",
        "            if \"_query_memo\" not in self.__dict__:\n                self._query_memo = self._query_by_position(start, end, completely_within, coding_only)\n"
        "            genes_to_keep, features_collections_to_keep, variant_collections_to_keep = self._query_memo\n"),
    # Parent.reset_location edits the (cached, shared) Parent in place instead of returning a new one
    "c10-parent-reset-location-in-place": (["C10"], P,
        "        strand = location.strand if location else None\n        return Parent(\n",
        "        strand = location.strand if location else None\n        if location is not None and self.location is not None:\n"
        "            self.location, self._strand, self._strand_property = location, strand, None\n            return self\n        return Parent(\n"),
    # the is_overlapping memo lives on the class: the first location asked decides for all later ones
    "c10-is-overlapping-memo-shared": (["C10"], L,
        "        if self._is_overlapping is None:\n            self._is_overlapping = any(\n",
        "        if CompoundInterval.__dict__.get(\"_ov_memo\") is not None:\n            return CompoundInterval._ov_memo\n"
        "        if self._is_overlapping is None:\n            CompoundInterval._ov_memo = self._is_overlapping = any(\n"),
    # reverts of the proposed fixes (match only once the fixes are applied)
    "c10-revert-f2": (["C10"], C,
        "            return Sequence(seq, Alphabet.NT_EXTENDED, validate_alphabet=False)\n        if self.num_blocks > 1:\n",
        "            return seq\n        if self.num_blocks > 1:\n"),
    "c10-revert-f3": (["C10"], I,
        "        merged = {key: set(vals) for key, vals in self.qualifiers.items()}\n",
        "        merged = self.qualifiers.copy()\n"),
}
