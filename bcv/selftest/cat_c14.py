"""C14 mutation catalogue.  The old texts are those of the tree WITH the F4 repair
(proposed_fixes/C14-bed12-chunk-relative-block-starts.diff) applied: on the unrepaired tree the check fires on its own,
so a mutant there proves nothing; the two `revert-f4` entries are the repair undone, one class at a time.

Not catalogued because equivalent under the stated latitude: taking the strand symbol from the chunk-relative
location (identical on plus-strand chunks; on minus-strand chunks either symbol is accepted)."""
TX = "inscripta/biocantor/gene/transcript.py"
FT = "inscripta/biocantor/gene/feature.py"
BED = "inscripta/biocantor/io/bed/bed.py"
MUTATIONS = {
    "c14-revert-f4-tx": (["C14"], TX, "block_starts = [block_start - start for block_start, _ in blocks]",
                         "block_starts = [block_start - self.start for block_start, _ in blocks]"),
    "c14-revert-f4-feat": (["C14"], FT, "block_starts = [block_start - start for block_start, _ in blocks]",
                           "block_starts = [block_start - self.start for block_start, _ in blocks]"),
    "c14-tx-size-plus1": (["C14"], TX, "block_sizes = [end - start for start, end in blocks]", "block_sizes = [end - start + 1 for start, end in blocks]"),
    "c14-feat-size-plus1": (["C14"], FT, "block_sizes = [end - start for start, end in blocks]", "block_sizes = [end - start + 1 for start, end in blocks]"),
    "c14-tx-thickstart-is-txstart": (["C14"], TX, "cds_start = self.cds_start", "cds_start = self.start"),
    "c14-tx-chunk-cds-in-chromosome-coords": (["C14"], TX, "cds_start = self.chunk_relative_cds_start", "cds_start = self.cds_start"),
    "c14-tx-chunk-thickend-is-chunk-end": (["C14"], TX, "cds_end = self.chunk_relative_cds_end", "cds_end = self.chunk_relative_end"),
    "c14-tx-chunk-start-chromosome": (["C14"], TX, "start = self.chunk_relative_start", "start = self.start"),
    "c14-feat-chunk-end-chromosome": (["C14"], FT, "end = self.chunk_relative_end", "end = self.end"),
    "c14-tx-chunk-blockcount-chromosome": (["C14"], TX, "num_blocks = self.chunk_relative_location.num_blocks", "num_blocks = len(self._genomic_starts)"),
    "c14-feat-chrom-blockcount-chunk": (["C14"], FT, "num_blocks = len(self._genomic_starts)", "num_blocks = self.chunk_relative_location.num_blocks"),
    "c14-tx-name-literal-only": (["C14"], TX, "getattr(self, name, name)", "name"),
    "c14-feat-name-no-literal-fallback": (["C14"], FT, "getattr(self, name, name)", "getattr(self, name, None)"),
    "c14-feat-thickend-nonempty": (["C14"], FT, "            0,  # thickEnd always 0 for non-coding", "            end,  # thickEnd always 0 for non-coding"),
    "c14-tx-strand-reversed": (["C14"], TX, "            self.strand,\n            cds_start,", "            self.strand.reverse(),\n            cds_start,"),
    "c14-bed-thick-columns-swapped": (["C14"], BED, "                    self.thick_start,\n                    self.thick_end,",
                                      "                    self.thick_end,\n                    self.thick_start,"),
    "c14-bed-sizes-space-separated": (["C14"], BED, '",".join(map(str, self.block_sizes))', '" ".join(map(str, self.block_sizes))'),
    "c14-bed-rgb-separator": (["C14"], BED, 'return ",".join(str(color) for color in astuple(self))', 'return ";".join(str(color) for color in astuple(self))'),
    "c14-bed-score-before-name": (["C14"], BED, "                    self.name,\n                    self.score,", "                    self.score,\n                    self.name,"),
}
