"""Mutation catalogue for C11 (GFF3 export well-formed; gene models survive export -> parse).

NOTE: on the unchanged tree the check already reports the C11 findings (F7, F9, F16 until repaired; K4, K41, K13 until they are
listed for C11 in KNOWN_FINDINGS.json), so `tools/muttest.py C11` (exit 1 + VIOLATION) only means something once those are
handled.  The builder measured "caught" as: at least one violation that classify() does NOT attribute to a recorded finding,
on a copy of /repo with the three proposed C11 patches applied.
"""
G = "inscripta/biocantor/gene/"
IO = "inscripta/biocantor/io/gff3/"

MUTATIONS = {
    # ---- coordinates (+1) per row type -------------------------------------------------------------------------
    "c11-gene-row-start-plus1": (["C11"], G + "gene.py", "(self.start if chromosome_relative_coordinates else self.chunk_relative_start) + 1,",
                                 "(self.start if chromosome_relative_coordinates else self.chunk_relative_start),"),
    "c11-transcript-row-start-plus1": (["C11"], G + "transcript.py", "(self.start if chromosome_relative_coordinates else self.chunk_relative_start) + 1,",
                                       "(self.start if chromosome_relative_coordinates else self.chunk_relative_start),"),
    "c11-exon-row-start-plus1": (["C11"], G + "transcript.py", "                start + 1,\n", "                start,\n"),
    "c11-cds-row-start-plus1": (["C11"], G + "cds.py", "                start + 1,\n", "                start,\n"),
    "c11-subregion-row-start-plus1": (["C11"], G + "feature.py", "                start + 1,\n", "                start,\n"),
    # ---- phase ---------------------------------------------------------------------------------------------------
    "c11-phase-is-frame-value": (["C11"], G + "cds.py", "                frame.to_phase(),\n", "                CDSPhase(frame.value),\n"),
    "c11-to-phase-table": (["C11"], G + "cds_frame.py", "mapping = {0: 0, 1: 2, 2: 1, -1: -1}", "mapping = {0: 0, 1: 1, 2: 2, -1: -1}"),
    "c11-phase-to-frame-table": (["C11"], G + "cds_frame.py", "mapping = {0: 0, 2: 1, 1: 2, -1: -1}", "mapping = {0: 0, 2: 2, 1: 1, -1: -1}"),
    # ---- escaping ------------------------------------------------------------------------------------------------
    "c11-encoding-map-no-percent": (["C11"], IO + "constants.py", '">": "%3E", " ": "%20", "%": "%25"}\nENCODING_MAP_WITH_COMMA',
                                    '">": "%3E", " ": "%20"}\nENCODING_MAP_WITH_COMMA'),
    "c11-encoding-map-no-cr": (["C11"], IO + "constants.py", '"=": "%3D", "\\n": "%0A", "\\r": "%0D", ">": "%3E", " ": "%20", "%": "%25"}\nENCODING_MAP_WITH_COMMA',
                               '"=": "%3D", "\\n": "%0A", ">": "%3E", " ": "%20", "%": "%25"}\nENCODING_MAP_WITH_COMMA'),
    "c11-encoding-map-semicolon-code": (["C11"], IO + "constants.py", 'ENCODING_MAP = {"\\t": "%09", ";": "%3B",', 'ENCODING_MAP = {"\\t": "%09", ";": "%3D",'),
    "c11-name-comma-not-escaped": (["C11"], IO + "rows.py",
                                   "[BioCantorGFF3ReservedQualifiers.NAME.value, GFFAttributes.escape_value(self.name, escape_comma=True)]",
                                   "[BioCantorGFF3ReservedQualifiers.NAME.value, GFFAttributes.escape_value(self.name, escape_comma=False)]"),
    # ---- reserved attributes ---------------------------------------------------------------------------------------
    "c11-reserved-check-by-enum-name": (["C11"], IO + "rows.py", "            if BioCantorGFF3ReservedQualifiers.has_value(key):", "            if BioCantorGFF3ReservedQualifiers.has_name(key):"),
    # ---- order / wiring ---------------------------------------------------------------------------------------------
    "c11-sort-key-end": (["C11"], G + "collections.py", "            key=lambda x: x.start,\n", "            key=lambda x: x.end,\n"),
    "c11-cds-parent-is-gene": (["C11"], G + "transcript.py", "                parent_qualifiers=qualifiers,\n                parent=tx_guid,\n",
                               "                parent_qualifiers=qualifiers,\n                parent=parent,\n"),
    "c11-subregion-parent-is-collection": (["C11"], G + "feature.py", "                parent=feature_id,\n", "                parent=parent,\n"),
    "c11-exon-ids-not-numbered": (["C11"], G + "transcript.py", 'id=f"exon-{tx_guid}-{i}",', 'id=f"exon-{tx_guid}",'),
    # ---- qualifiers / identifiers -------------------------------------------------------------------------------------
    "c11-merge-drops-own-qualifiers": (["C11"], G + "interval.py", "        merged = self.qualifiers.copy()\n", "        merged = {}\n"),
    "c11-gene-row-without-locus-tag": (["C11"], G + "gene.py", "            [BioCantorQualifiers.LOCUS_TAG.value, self.locus_tag],\n", ""),
    "c11-cds-row-without-product": (["C11"], G + "cds.py", "            [BioCantorQualifiers.PRODUCT.value, self.product],\n", ""),
    # ---- FASTA section ----------------------------------------------------------------------------------------------------
    "c11-sequence-region-from-0": (["C11"], IO + "constants.py", 'SEQUENCE_HEADER = "##sequence-region {symbol} 1 {length}"', 'SEQUENCE_HEADER = "##sequence-region {symbol} 0 {length}"'),
    # ---- parser ---------------------------------------------------------------------------------------------------------------
    "c11-parser-exon-start-not-0-based": (["C11"], IO + "parser.py", "    exon_starts = [x.start - 1 for x in exons]", "    exon_starts = [x.start for x in exons]"),
    "c11-parser-cds-end-minus1": (["C11"], IO + "parser.py", "        cds_ends = [x.end for x in cds]", "        cds_ends = [x.end - 1 for x in cds]"),
    "c11-parser-product-from-protein-id": (["C11"], IO + "parser.py", 'product = cds[0].attributes.get("product", [None])[0]', 'product = cds[0].attributes.get("protein_id", [None])[0]'),
    "c11-parser-symbol-key": (["C11"], IO + "parser.py", '        for key in ["gene_name", "gene_symbol", "gene", "Name"]:', '        for key in ["gene_symbol", "gene", "gene_id"]:'),
    "c11-parser-strand-from-gene-row": (["C11"], IO + "parser.py", "                transcript.strand,\n", "                gene_or_feature.strand,\n"),
}
