MUTATIONS = {
    "c16-first-shift": (["C16"], "inscripta/biocantor/util/bins.py", "FIRST_SHIFT = 17", "FIRST_SHIFT = 16"),
    "c16-offset-entry": (["C16"], "inscripta/biocantor/util/bins.py", "    64 + 8 + 1,  # bins 73-9", "    64 + 8 + 2,  # bins 73-9"),
    "c16-range-no-plus1": (["C16"], "inscripta/biocantor/util/bins.py", "range(offset + start, offset + stop + 1)", "range(offset + start, offset + stop)"),
    "c16-coord-offsets-swapped": (["C16"], "inscripta/biocantor/util/bins.py", 'COORD_OFFSETS = {"bed": 0, "gff": 1}', 'COORD_OFFSETS = {"bed": 1, "gff": 0}'),
    "c16-revert-f8": (["C16"], "inscripta/biocantor/util/bins.py", "        elif start >= MAX_CHROM_SIZE:\n            return {1}\n", "        else:\n            return {1}\n"),
    "c16-next-shift": (["C16"], "inscripta/biocantor/util/bins.py", "NEXT_SHIFT = 3", "NEXT_SHIFT = 4"),
    "c16-max-chrom": (["C16"], "inscripta/biocantor/util/bins.py", "MAX_CHROM_SIZE = 2**29", "MAX_CHROM_SIZE = 2**28"),
    "c16-tx-bin-uses-cds": (["C16"], "inscripta/biocantor/gene/gene.py", 'self.bin = bins(self.start, self.end, fmt="bed")', 'self.bin = bins(self.start, self.start + 1, fmt="bed")'),
}
