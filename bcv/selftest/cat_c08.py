"""Mutation catalogue for C08: name -> ([property ids], file, old text (unique in the file), new text)."""
H = "inscripta/biocantor/util/hashing.py"
G = "inscripta/biocantor/gene/"
M = "inscripta/biocantor/io/models.py"
MUTATIONS = {
    # --- util/hashing.py ---------------------------------------------------------------------------------------------
    "c08-order-set-not-sorted": (["C08"], H, "    return sorted(str(x) for x in set_of_hashables)", "    return [str(x) for x in set_of_hashables]"),
    "c08-dict-keys-not-sorted": (["C08"], H, "    for key in sorted(dict_of_possible_sets):", "    for key in dict_of_possible_sets:"),
    "c08-set-member-not-ordered": (["C08"], H, "            elif isinstance(member, set):\n                yield str(_order_set(member))",
                                   "            elif isinstance(member, set):\n                yield str(member)"),
    # --- digest argument lists ---------------------------------------------------------------------------------------
    "c08-cds-digest-loses-frames": (["C08"], G + "cds.py", "                self.strand,\n                self.frames,\n                self.product,",
                                    "                self.strand,\n                self.product,"),
    "c08-feature-digest-loses-ends": (["C08"], G + "feature.py", "                self._genomic_starts,\n                self._genomic_ends,\n                self.strand,\n                self.qualifiers,",
                                      "                self._genomic_starts,\n                self.strand,\n                self.qualifiers,"),
    "c08-transcript-digest-loses-strand": (["C08"], G + "transcript.py", "                self._genomic_ends,\n                self.strand,\n                self._cds_frames,",
                                           "                self._genomic_ends,\n                self._cds_frames,"),
    "c08-gene-digest-loses-children": (["C08"], G + "gene.py", "                self.qualifiers,\n                self.children_guids,\n            )", "                self.qualifiers,\n            )"),
    "c08-variant-digest-loses-end": (["C08"], G + "variants.py", "                start,\n                end,\n                self.qualifiers,", "                start,\n                self.qualifiers,"),
    "c08-collection-digest-loses-children": (["C08"], G + "collections.py", "self.completely_within, self.children_guids\n", "self.completely_within\n"),
    # --- to_dict / from_dict fields ----------------------------------------------------------------------------------
    "c08-transcript-to-dict-drops-product": (["C08"], G + "transcript.py", "            protein_id=self.protein_id,\n            product=self.product,\n            transcript_guid=self.transcript_guid,",
                                             "            protein_id=self.protein_id,\n            product=None,\n            transcript_guid=self.transcript_guid,"),
    "c08-transcript-from-dict-drops-primary": (["C08"], G + "transcript.py", '            is_primary_tx=vals["is_primary_tx"],', "            is_primary_tx=None,"),
    "c08-feature-to-dict-drops-feature-guid": (["C08"], G + "feature.py", "            feature_guid=self.feature_guid,\n            is_primary_feature=self._is_primary_feature,\n        )\n\n    @staticmethod\n    def from_dict",
                                     "            feature_guid=None,\n            is_primary_feature=self._is_primary_feature,\n        )\n\n    @staticmethod\n    def from_dict"),
    "c08-feature-types-not-sorted": (["C08"], G + "feature.py", "            feature_name=self.feature_name,\n            feature_types=sorted(self.feature_types) if self.feature_types else None,",
                                     "            feature_name=self.feature_name,\n            feature_types=list(self.feature_types) if self.feature_types else None,"),
    "c08-gene-from-dict-drops-locus-tag": (["C08"], G + "gene.py", '            locus_tag=vals["locus_tag"],', "            locus_tag=None,"),
    "c08-collection-to-dict-drops-path": (["C08"], G + "collections.py", "            sequence_guid=self.sequence_guid,\n            sequence_path=self.sequence_path,\n            start=self.start if chromosome_relative_coordinates",
                                          "            sequence_guid=self.sequence_guid,\n            sequence_path=None,\n            start=self.start if chromosome_relative_coordinates"),
    "c08-vcoll-from-dict-drops-qualifiers": (["C08"], G + "variants.py", '            variant_collection_id=vals["variant_collection_id"],\n            qualifiers=vals["qualifiers"],',
                                             '            variant_collection_id=vals["variant_collection_id"],\n            qualifiers=None,'),
    # --- qualifier import / export ------------------------------------------------------------------------------------
    "c08-export-qualifiers-not-sorted": (["C08"], G + "interval.py", "            return {key: sorted(vals) for key, vals in self.qualifiers.items()}",
                                         "            return {key: list(vals) for key, vals in self.qualifiers.items()}"),
    "c08-import-qualifiers-no-str": (["C08"], G + "interval.py", "                self.qualifiers[key] = {str(x) for x in vals}", "                self.qualifiers[key] = set(vals)"),
    # --- parent export / pickling ------------------------------------------------------------------------------------
    "c08-setstate-drops-completely-within": (["C08"], G + "collections.py", "            ac.end,\n            ac.completely_within,", "            ac.end,\n            None,"),
    "c08-parent-dict-chunk-type-test": (["C08"], G + "collections.py", 'parent_dict["seq_type"] == SequenceType.SEQUENCE_CHUNK:', 'parent_dict["seq_type"] == SequenceType.CHROMOSOME:'),
    "c08-parent-to-dict-chunk-strand": (["C08"], G + "interval.py", '                "start": location.start,\n                "end": location.end,\n                "strand": location.strand.name,\n                "alphabet": sequence.alphabet.name,\n                "type": SequenceType.SEQUENCE_CHUNK.name,',
                                     '                "start": location.start,\n                "end": location.end,\n                "strand": Strand.PLUS.name,\n                "alphabet": sequence.alphabet.name,\n                "type": SequenceType.SEQUENCE_CHUNK.name,'),
    # --- io/models.py --------------------------------------------------------------------------------------------------
    "c08-model-to-transcript-drops-protein-id": (["C08"], M, "            protein_id=self.protein_id,\n            product=self.product,\n            parent_or_seq_chunk_parent=parent_or_seq_chunk_parent,",
                                                 "            protein_id=None,\n            product=self.product,\n            parent_or_seq_chunk_parent=parent_or_seq_chunk_parent,"),
    "c08-parent-model-drops-alphabet": (["C08"], M, "                strand=self.strand,\n                alphabet=self.alphabet,\n            )", "                strand=self.strand,\n            )"),
    "c08-model-collection-drops-id": (["C08"], M, "            name=self.name,\n            id=self.id,\n            qualifiers=self.qualifiers,", "            name=self.name,\n            id=None,\n            qualifiers=self.qualifiers,"),
}
