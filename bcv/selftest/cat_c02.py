L = "inscripta/biocantor/location/location_impl.py"
LO = "inscripta/biocantor/location/location.py"
MUTATIONS = {
    "c02-overlap-end-lt": (["C02"], L, "        if self.start < other.end <= self.end:\n            return True", "        if self.start <= other.end <= self.end:\n            return True"),
    "c02-combine-gt": (["C02"], L, "(curr_end == next_start) if preserve_overlappers else (curr_end >= next_start)", "(curr_end == next_start) if preserve_overlappers else (curr_end > next_start)"),
    "c02-match-strand-default": (["C02"], L, "    def has_overlap(\n        self, other: Location, match_strand: bool = False, full_span: bool = False, strict_parent_compare: bool = False\n    ) -> bool:\n        \"\"\"Compares the overlap of this interval", "    def has_overlap(\n        self, other: Location, match_strand: bool = True, full_span: bool = False, strict_parent_compare: bool = False\n    ) -> bool:\n        \"\"\"Compares the overlap of this interval"),
    "c02-minus-no-optimize": (["C02"], L, "        return CompoundInterval(result_starts, result_ends, self.strand, parent=new_parent).optimize_blocks()", "        return CompoundInterval(result_starts, result_ends, self.strand, parent=new_parent)"),
    "c02-extend-negative-check": (["C02"], L, "    def extend_absolute(self, extend_start: int, extend_end: int) -> Location:\n        if min(extend_start, extend_end) < 0:\n            raise ValueError(\"Extension distances must be non-negative\")\n        return SingleInterval(", "    def extend_absolute(self, extend_start: int, extend_end: int) -> Location:\n        return SingleInterval("),
    "c02-union-min-max": (["C02"], L, "                min(self.start, other.start),\n                max(self.end, other.end),", "                min(self.start, other.start),\n                min(self.end, other.end),"),
    "c02-intersection-strand": (["C02"], L, "        if intersect_other_strand.strand != self.strand:\n            return intersect_other_strand.reset_strand(self.strand)", "        if False:\n            return intersect_other_strand.reset_strand(self.strand)"),
    "c02-distance-outer": (["C02"], L, "            return max(abs(self.start - other.end), abs(self.end - other.start))", "            return max(abs(self.start - other.start), abs(self.end - other.end))"),
    "c02-distance-inner-min": (["C02"], L, "            if self.has_overlap(other):\n                return 0\n            return min(distances)", "            if self.has_overlap(other):\n                return 0\n            return max(distances)"),
    "c02-reverse-reflect": (["C02"], L, "            return self.start + self.end - relative_pos", "            return self.start + self.end - relative_pos - 1"),
    "c02-contains-len": (["C02"], LO, "            ) == len(other_to_compare)", "            ) >= len(other_to_compare) - 1"),
    "c02-gap-minmax": (["C02"], L, "            gap_start = min(block1.end, block2.end)", "            gap_start = min(block1.start, block2.end)"),
    "c02-revert-f11": (["C02"], L, "                    curr_end = max(curr_end, next_end)", "                    curr_end = next_end"),
    "c02-revert-f13": (["C02"], L, "        if optimized.is_empty:\n            # all blocks", "        if False:\n            # all blocks"),
    # removed as equivalent on the current tree: "c02-shift-no-bounds" (dropping the forced _single_intervals evaluation in shift_position) -
    # since the repairs F21 / F33 the CompoundInterval constructor itself refuses a negative start and an end beyond the parent sequence
    "c02-full-span-compound": (["C02"], L, "        if full_span:\n            return self._full_span_interval.has_overlap(other, match_strand, full_span=True)", "        if full_span:\n            return self._full_span_interval.has_overlap(other, match_strand, full_span=False)"),
    "c02-union-preserve-strand": (["C02"], L, "    if loc1.strand != loc2.strand:\n        raise InvalidStrandException", "    if False:\n        raise InvalidStrandException"),
    "c02-empty-union-branch": (["C02"], L, "        if len(other) == 0:\n            return SingleInterval(self.start, self.end, self.strand, new_parent)", "        if len(other) == 0:\n            return SingleInterval(other.start, other.end, self.strand, new_parent)"),
}
