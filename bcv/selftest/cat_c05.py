C = "inscripta/biocantor/gene/cds.py"
F = "inscripta/biocantor/gene/cds_frame.py"
MUTATIONS = {
    "c05-relstart-plus1": (["C05"], C, "                rel_start += frame.value\n", "                rel_start += 1\n"),
    "c05-shift-ge0": (["C05"], C, "                if shift > 0:\n", "                if shift > 1:\n"),
    "c05-min-len-gt3": (["C05"], C, "        if (len(location) - offset) >= 3:", "        if (len(location) - offset) > 3:"),
    "c05-frame-iter-no-reverse": (["C05"], C, "            if self.strand == Strand.MINUS:\n                yield from reversed(self.frames)", "            if self.strand == Strand.MINUS:\n                yield from self.frames"),
    "c05-phase-to-frame-identity": (["C05"], F, "mapping = {0: 0, 2: 1, 1: 2, -1: -1}", "mapping = {0: 0, 2: 2, 1: 1, -1: -1}"),
    "c05-construct-frames-no-flip": (["C05"], C, "        if location.strand == Strand.MINUS:\n            frames = frames[::-1]\n        return frames", "        return frames"),
    "c05-fast-path-trim": (["C05"], C, "[offset : len(location) - ((len(location) - offset) % 3)]", "[offset : len(location) - (len(location) % 3)]"),
    "c05-next-frame-shift": (["C05"], C, "            next_frame = next_frame.shift(rel_end - rel_start)", "            next_frame = next_frame.shift(rel_end - rel_start + 1)"),
    "c05-translate-start-rule": (["C05"], C, "            if i == 0 and codon.is_start_codon_in_specific_translation_table(translation_table):", "            if codon.is_start_codon_in_specific_translation_table(translation_table):"),
    "c05-has-valid-stop": (["C05"], C, "        c = Codon(seq[-3:].sequence.upper())", "        c = Codon(seq[:3].sequence.upper())"),
    "c05-in-frame-stop-slice": (["C05"], C, 'return "*" in str(self.translate()[:-1])', 'return "*" in str(self.translate())'),
    "c05-fivep-minus": (["C05"], C, "0, cleaned_location.parent_to_relative_pos(loc_on_chrom.end - 1), Strand.PLUS", "0, cleaned_location.parent_to_relative_pos(loc_on_chrom.start), Strand.PLUS"),
    "c05-expand-round-start": (["C05"], C, "adjusted_cds_start = cds_interval.start - (cds_interval.start % 3)", "adjusted_cds_start = cds_interval.start"),
    "c05-revert-f14": (["C05"], C, "        adjusted_cds_end = min(cds_interval.end - (cds_interval.end % -3), len(self.chromosome_location))", "        adjusted_cds_end = cds_interval.end - (cds_interval.end % -3)"),
    "c05-single-offset-frame": (["C05"], C, "        offset = self.frames[0].value\n", "        offset = self.frames[0].to_phase().value\n"),
    "c05-sizes0-starting": (["C05"], C, "        sizes[0] -= starting_frame.value", "        sizes[0] += starting_frame.value"),
    "c05-scan-codons-step": (["C05"], C, "            c = Codon(str(seq[i : i + 3]).upper())\n            yield c\n            if truncate_at_in_frame_stop and c.is_stop_codon:\n                break", "            c = Codon(str(seq[i : i + 3]).upper())\n            if truncate_at_in_frame_stop and c.is_stop_codon:\n                break\n            yield c"),
    "c05-optimize-first-frame-genomic": (["C05"], C, "        new_loc = self.chunk_relative_location.optimize_blocks()\n        first_frame = next(self._frame_iter())", "        new_loc = self.chunk_relative_location.optimize_blocks()\n        first_frame = self.frames[0]"),
    "c05-optimize-combine-keeps-loc": (["C05"], C, "            new_loc = self.chunk_relative_location.optimize_and_combine_blocks()\n        else:\n            new_loc = self.chunk_relative_location\n        first_frame = next(self._frame_iter())", "            new_loc = self.chunk_relative_location.optimize_and_combine_blocks()\n        else:\n            new_loc = self.chunk_relative_location\n        first_frame = CDSFrame.ZERO"),
    "c05-phases-read-as-frames": (["C05"], C, "            self.frames = [x.to_frame() for x in frames_or_phases]", "            self.frames = [CDSFrame(x.value) for x in frames_or_phases]"),
}
