"""Ambient workload (DESIGN 3.6): pytest plugin that attaches runtime contracts to the real Location classes while the
repository's own tests run.  Test outcomes are ignored; only monitor events count.  Events are written as JSON to
$BCV_AMBIENT_OUT at session end.

Contracts (icontract):
  * class invariants on SingleInterval / CompoundInterval: locmon.wellformed + locmon.span_consistent
  * postconditions (pure functions of (self, other, flags, result), with explicit preconditions) comparing
    has_overlap / intersection / union / minus / contains / relative_to_parent_pos / parent_to_relative_pos /
    optimize_blocks with the position-set / position-list model.
Only monitors that are silent on the unchanged tree without being weakened take part (vetted; see DESIGN section 10).
"""
import json
import os
import sys

from bcv import compat

compat.apply()

import icontract  # noqa: E402

from bcv.models import posmodel as PM  # noqa: E402
from bcv.monitors import locmon as LM  # noqa: E402

COUNTS = {}
VIOLATIONS = []
_CURRENT = {"test": None}


def _count(name):
    COUNTS[name] = COUNTS.get(name, 0) + 1


def _report(monitor, key, **detail):
    if len(VIOLATIONS) < 200:
        VIOLATIONS.append({"monitor": monitor, "key": key, "test": _CURRENT["test"], "detail": {k: repr(v)[:300] for k, v in detail.items()}})


def _blocks(loc):
    return [(b.start, b.end) for b in loc.blocks]


def _set(loc):
    if LM.is_empty_singleton(loc):
        return frozenset()
    return PM.posset(_blocks(loc))


def _same_parent(a, b):
    if a.parent is None and b.parent is None:
        return True
    if a.parent is None or b.parent is None:
        return False
    return a.parent.equals_except_location(b.parent)


def _plain(loc):
    """Operand eligible for the set model: a real interval class whose own blocks do not overlap."""
    return type(loc).__name__ in ("SingleInterval", "CompoundInterval") and not PM.self_overlapping(_blocks(loc))


# ---- invariants (always return True: they record instead of raising, so that the observed test is not aborted) ---
def inv_wellformed(self):
    _count("ambient.inv.wellformed")
    try:
        p = LM.wellformed(self)
    except Exception as e:  # noqa: BLE001  objects under construction / deliberately broken by a test
        return True
    if p is not None:
        _report("ambient.inv.wellformed", type(self).__name__, problem=p, obj=self)
    else:
        _count("ambient.inv.span")
        p2 = LM.span_consistent(self)
        if p2 is not None:
            _report("ambient.inv.span", type(self).__name__, problem=p2, obj=self)
    return True


# ---- postconditions ------------------------------------------------------------------------------------------
def post_has_overlap(self, other, result, match_strand=False, full_span=False, strict_parent_compare=False):
    if full_span or not _plain(self) or not _plain(other) or not _same_parent(self, other):
        return True
    _count("ambient.set.has_overlap")
    want = bool(_set(self) & _set(other)) and (not match_strand or self.strand == other.strand)
    if result is not want:
        _report("ambient.set.has_overlap", type(self).__name__, a=self, b=other, match_strand=match_strand, got=result, want=want)
    return True


def post_intersection(self, other, result, match_strand=True, full_span=False, strict_parent_compare=False):
    if full_span or not _plain(self) or not _plain(other) or not _same_parent(self, other):
        return True
    _count("ambient.set.intersection")
    want = _set(self) & _set(other) if (not match_strand or self.strand == other.strand) else frozenset()
    if _set(result) != want:
        _report("ambient.set.intersection", type(self).__name__, a=self, b=other, match_strand=match_strand, got=result, want=sorted(want))
    return True


def post_union(self, other, result):
    if not _plain(self) or not _plain(other) or not _same_parent(self, other):
        return True
    _count("ambient.set.union")
    if _set(result) != _set(self) | _set(other):
        _report("ambient.set.union", type(self).__name__, a=self, b=other, got=result)
    return True


def post_minus(self, other, result, match_strand=True, strict_parent_compare=False):
    if not _plain(self) or not _plain(other) or not _same_parent(self, other):
        return True
    _count("ambient.set.minus")
    want = _set(self) - _set(other) if (not match_strand or self.strand == other.strand) else _set(self)
    if _set(result) != want:
        _report("ambient.set.minus", type(self).__name__, a=self, b=other, match_strand=match_strand, got=result, want=sorted(want))
    return True


def post_rel_to_parent(self, relative_pos, result):
    if type(self).__name__ not in ("SingleInterval", "CompoundInterval"):
        return True
    _count("ambient.map.rel-to-parent")
    P = PM.positions(_blocks(self), self.strand.to_symbol())
    if not (0 <= relative_pos < len(P)) or P[relative_pos] != result:
        _report("ambient.map.rel-to-parent", type(self).__name__, loc=self, i=relative_pos, got=result)
    return True


def post_parent_to_rel(self, parent_pos, result):
    if type(self).__name__ not in ("SingleInterval", "CompoundInterval"):
        return True
    _count("ambient.map.parent-to-rel")
    P = PM.positions(_blocks(self), self.strand.to_symbol())
    if not (isinstance(result, int) and 0 <= result < len(P) and P[result] == parent_pos):
        _report("ambient.map.parent-to-rel", type(self).__name__, loc=self, p=parent_pos, got=result)
    return True


def post_optimize(self, result):
    _count("ambient.set.optimize")
    from collections import Counter

    a = Counter(p for s, e in _blocks(self) for p in range(s, e))
    b = Counter() if LM.is_empty_singleton(result) else Counter(p for s, e in _blocks(result) for p in range(s, e))
    if a != b:
        _report("ambient.set.optimize", type(self).__name__, loc=self, got=result)
    return True


def attach():
    from inscripta.biocantor.location import location_impl as L

    for cls in (L.SingleInterval, L.CompoundInterval):
        for name, post in (("has_overlap", post_has_overlap), ("intersection", post_intersection), ("union", post_union),
                           ("minus", post_minus), ("relative_to_parent_pos", post_rel_to_parent),
                           ("parent_to_relative_pos", post_parent_to_rel), ("optimize_blocks", post_optimize)):
            orig = cls.__dict__.get(name)
            if orig is None:
                continue
            setattr(cls, name, icontract.ensure(post)(orig))
        icontract.invariant(inv_wellformed)(cls)


attach()


def pytest_runtest_setup(item):
    _CURRENT["test"] = item.nodeid


def pytest_sessionfinish(session, exitstatus):
    out = os.environ.get("BCV_AMBIENT_OUT")
    if out:
        with open(out, "w") as fh:
            json.dump({"counts": COUNTS, "violations": VIOLATIONS, "tests": session.testscollected}, fh)
