"""Reach counters: per-code-object call counts of the anchored mechanisms, via sys.monitoring (PEP 669),
without editing the library.  A deciding mechanism that was never entered makes a run inconclusive."""
import importlib
import sys

_TOOL = None
_counts = {}
_names = {}


def _resolve(spec):
    """'pkg.mod:Class.method' -> code object (unwrapping property / classmethod / lru wrappers)."""
    modname, _, qual = spec.partition(":")
    obj = importlib.import_module(modname)
    parent = None
    for part in qual.split("."):
        parent = obj
        try:
            obj = parent.__dict__[part] if isinstance(parent, type) and part in parent.__dict__ else getattr(parent, part)
        except AttributeError:
            # lru_cache-wrapped classes (Parent) hide attributes behind __wrapped__
            obj = getattr(parent.__wrapped__, part)
    seen = 0
    while seen < 10:
        seen += 1
        if isinstance(obj, property):
            obj = obj.fget
        elif isinstance(obj, (classmethod, staticmethod)):
            obj = obj.__func__
        elif hasattr(obj, "__code__"):
            return obj.__code__
        elif hasattr(obj, "__wrapped__"):
            obj = obj.__wrapped__
        elif hasattr(obj, "fget"):
            obj = obj.fget
        elif hasattr(obj, "__func__"):
            obj = obj.__func__
        else:
            break
    raise LookupError(spec)


def _cb(code, offset):
    _counts[code] = _counts.get(code, 0) + 1


def watch(specs):
    """Start counting calls of the given functions.  Unresolvable specs are reported with count -1."""
    global _TOOL
    mon = sys.monitoring
    if _TOOL is None:
        _TOOL = mon.PROFILER_ID
        try:
            mon.use_tool_id(_TOOL, "bcv-reach")
        except ValueError:
            _TOOL = mon.OPTIMIZER_ID
            mon.use_tool_id(_TOOL, "bcv-reach")
        mon.register_callback(_TOOL, mon.events.PY_START, _cb)
    for spec in specs:
        try:
            code = _resolve(spec)
        except Exception:  # noqa: BLE001
            _names[spec] = None
            continue
        _names[spec] = code
        _counts.setdefault(code, 0)
        mon.set_local_events(_TOOL, code, mon.events.PY_START)


def counts():
    return {spec: (-1 if code is None else _counts.get(code, 0)) for spec, code in _names.items()}
