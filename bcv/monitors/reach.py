"""Reach counters: per-code-object call counts of the anchored mechanisms, via sys.monitoring (PEP 669),
without editing the library.  A deciding mechanism that was never entered makes a run inconclusive."""
import importlib
import sys

_TOOL = None
_counts = {}
_names = {}


def _resolve(spec):
    """'pkg.mod:Class.method' -> code object (unwrapping property / classmethod / lru wrappers)."""
    modname, _, qual = spec.partition(":")
    obj = importlib.import_module(modname)
    parent = None
    for part in qual.split("."):
        parent = obj
        try:
            obj = parent.__dict__[part] if isinstance(parent, type) and part in parent.__dict__ else getattr(parent, part)
        except AttributeError:
            # lru_cache-wrapped classes (Parent) hide attributes behind __wrapped__
            obj = getattr(parent.__wrapped__, part)
    seen = 0
    while seen < 10:
        seen += 1
        if isinstance(obj, property):
            obj = obj.fget
        elif isinstance(obj, (classmethod, staticmethod)):
            obj = obj.__func__
        elif hasattr(obj, "__code__"):
            return obj.__code__
        elif hasattr(obj, "__wrapped__"):
            obj = obj.__wrapped__
        elif hasattr(obj, "fget"):
            obj = obj.fget
        elif hasattr(obj, "__func__"):
            obj = obj.__func__
        else:
            break
    raise LookupError(spec)


def _cb(code, offset):
    _counts[code] = _counts.get(code, 0) + 1


def watch(specs):
    """Start counting calls of the given functions.  Unresolvable specs are reported with count -1."""
    global _TOOL
    mon = sys.monitoring
    if _TOOL is None:
        _TOOL = mon.PROFILER_ID
        try:
            mon.use_tool_id(_TOOL, "bcv-reach")
        except ValueError:
            _TOOL = mon.OPTIMIZER_ID
            mon.use_tool_id(_TOOL, "bcv-reach")
        mon.register_callback(_TOOL, mon.events.PY_START, _cb)
    for spec in specs:
        try:
            code = _resolve(spec)
        except Exception:  # noqa: BLE001
            _names[spec] = None
            continue
        _names[spec] = code
        _counts.setdefault(code, 0)
        mon.set_local_events(_TOOL, code, mon.events.PY_START)


def counts():
    return {spec: (-1 if code is None else _counts.get(code, 0)) for spec, code in _names.items()}


# ----------------------------------------------------------------------------------------------------------------------
# statement coverage of the anchored files (what the workload actually drove), via sys.monitoring LINE events that
# disable themselves after the first hit (cost: one callback per distinct line).  Evidence only - never a verdict.
# ----------------------------------------------------------------------------------------------------------------------
_COVER_TOOL = None
_cover_files = {}
_cover_hits = {}


def cover_start(repo_root, rel_files):
    """Record executed lines of the given files (paths relative to the repository root)."""
    global _COVER_TOOL
    import os

    mon = sys.monitoring
    for rel in rel_files:
        _cover_files[os.path.join(repo_root, rel)] = rel
        _cover_hits.setdefault(rel, set())
    if _COVER_TOOL is not None or not _cover_files:
        return
    _COVER_TOOL = mon.COVERAGE_ID
    try:
        mon.use_tool_id(_COVER_TOOL, "bcv-cover")
    except ValueError:
        _COVER_TOOL = None
        return

    def on_line(code, line):
        rel = _cover_files.get(code.co_filename)
        if rel is not None:
            _cover_hits[rel].add(line)
        return mon.DISABLE

    def on_start(code, offset):
        # first entry of a code object: switch line events on for it if it belongs to an anchored file; either way this
        # start event is never needed again
        if code.co_filename in _cover_files:
            try:
                mon.set_local_events(_COVER_TOOL, code, mon.events.LINE)
            except ValueError:
                pass
        return mon.DISABLE

    mon.register_callback(_COVER_TOOL, mon.events.LINE, on_line)
    mon.register_callback(_COVER_TOOL, mon.events.PY_START, on_start)
    mon.set_events(_COVER_TOOL, mon.events.PY_START)


def cover_result():
    return {rel: sorted(lines) for rel, lines in _cover_hits.items()}


def executable_lines(path):
    """{qualname: set(lines)} of every function / class body / module body of a source file (from compiled code objects)."""
    with open(path) as fh:
        src = fh.read()
    top = compile(src, path, "exec", dont_inherit=True)
    out = {}

    def walk(code, prefix):
        name = prefix if code.co_name == "<module>" else (f"{prefix}.{code.co_name}" if prefix else code.co_name)
        is_function = bool(code.co_flags & 0x1)      # CO_OPTIMIZED: module and class bodies run at import time, before the workload
        lines = {ln for _, _, ln in code.co_lines() if ln is not None and ln > 0} if is_function else set()
        # the 'def' line itself executes at definition time (in the enclosing body), not when the function runs
        if code.co_name != "<module>":
            lines.discard(code.co_firstlineno)
        if is_function:
            out.setdefault(name, set()).update(lines)
        for c in code.co_consts:
            if hasattr(c, "co_lines"):
                walk(c, "" if code.co_name == "<module>" else name)

    walk(top, "")
    return out
