"""Structural monitors for Location objects (shared by C02, C19 and the ambient contract run).

Every function is a pure function of the object read through its public surface and returns None (holds) or a
short string describing the problem."""


def is_empty_singleton(loc):
    return type(loc).__name__ == "_EmptyLocation"


def blocks_of(loc):
    return [(b.start, b.end) for b in loc.blocks]


def wellformed(loc):
    """The invariant proper, as the property states it: blocks sorted, 0 <= start <= end, length = sum of block
    lengths, inside the bounds of the parent sequence."""
    if is_empty_singleton(loc):
        return None if len(loc) == 0 else "EmptyLocation with non-zero length"
    try:
        bl = blocks_of(loc)
        start, end, length = loc.start, loc.end, len(loc)
        st = loc.strand.to_symbol()
    except Exception as e:  # noqa: BLE001
        return f"cannot read location: {e!r}"
    if not bl:
        return "no blocks"
    for s, e in bl:
        if not (0 <= s <= e):
            return f"block {s}-{e} violates 0 <= start <= end"
    if not (0 <= start <= end):
        return f"start {start} / end {end} violate 0 <= start <= end"
    key = (lambda b: (b[0], b[1])) if st == "+" else (lambda b: (b[0], -b[1]))
    if bl != sorted(bl, key=key):
        return f"blocks not sorted: {bl}"
    if length != sum(e - s for s, e in bl):
        return f"length {length} != sum of block lengths {sum(e - s for s, e in bl)}"
    if type(loc).__name__ == "SingleInterval" and (len(bl) != 1 or bl[0] != (start, end)):
        return "SingleInterval whose only block is not itself"
    p = loc.parent
    if p is not None and p.sequence is not None and max(e for _, e in bl) > len(p.sequence):
        return f"block end {max(e for _, e in bl)} beyond parent sequence length {len(p.sequence)}"
    return None


def span_consistent(loc):
    """start == min(block starts) and end == max(block ends) (kept apart from the invariant proper)."""
    if is_empty_singleton(loc):
        return None
    bl = blocks_of(loc)
    if loc.start != min(s for s, _ in bl):
        return f"start {loc.start} != min block start {min(s for s, _ in bl)}"
    if loc.end != max(e for _, e in bl):
        return f"end {loc.end} != max block end {max(e for _, e in bl)}"
    return None


def normalised(loc, combined=False):
    """After optimisation: no empty block, no pair of touching blocks; with combined=True no overlapping blocks either.
    A one-block result must be a SingleInterval."""
    if is_empty_singleton(loc):
        return None
    bl = blocks_of(loc)
    for s, e in bl:
        if e == s:
            return f"empty block {s}-{e} after optimisation"
    bl = sorted(bl)
    overlapping = any(s2 < e1 for (s1, e1), (s2, e2) in zip(bl, bl[1:]))
    if combined and overlapping:
        return f"overlapping blocks after combining: {bl}"
    if not overlapping:
        # "mergeable-adjacent" is only well defined when the blocks do not overlap each other: with preserved
        # overlappers two touching blocks may be separated by a block nested in the first one
        for (s1, e1), (s2, e2) in zip(bl, bl[1:]):
            if s2 == e1:
                return f"touching blocks {s1}-{e1},{s2}-{e2} after optimisation"
    if len(bl) == 1 and type(loc).__name__ != "SingleInterval":
        return "one-block result is not a SingleInterval"
    return None
