"""Driver side of the ambient workload: runs the repository's own tests under bcv.pytest_plugin in a child process
and merges the monitor events into the shard context.  Test outcomes are ignored."""
import json
import os
import subprocess
import sys

from bcv import env


def tests_root():
    t = os.path.join(env.REPO, "tests")
    return t if os.path.isdir(t) else "/repo/tests"


def run(ctx, rel_paths, select=None, timeout=3000):
    work = env.workdir()
    out = os.path.join(work, f"ambient-{os.getpid()}.json")
    root = tests_root()
    paths = [os.path.join(root, p) for p in rel_paths]
    paths = [p for p in paths if os.path.exists(p.split("::")[0])]
    e = dict(os.environ)
    e["PYTHONPATH"] = os.pathsep.join([env.REPO, env.VERIF, env.DEPS])
    e["BCV_AMBIENT_OUT"] = out
    e["PYTHONDONTWRITEBYTECODE"] = "1"
    cmd = [sys.executable, "-B", "-P", "-m", "pytest", "-p", "bcv.pytest_plugin", "-q", "-p", "no:cacheprovider", "--no-header",
           "-W", "ignore"] + paths
    if select:
        cmd += ["-k", select]
    try:
        subprocess.run(cmd, cwd=work, env=e, capture_output=True, text=True, timeout=timeout)
    except subprocess.TimeoutExpired:
        ctx.harness_errors.append({"where": "ambient", "traceback": f"pytest watchdog {timeout}s"})
        return
    if not os.path.exists(out):
        ctx.harness_errors.append({"where": "ambient", "traceback": "ambient run wrote no event file"})
        return
    with open(out) as fh:
        d = json.load(fh)
    os.remove(out)
    for m, n in d["counts"].items():
        ctx.seen(m, n)
    ctx.bump("ambient-tests-collected", d.get("tests", 0))
    for v in d["violations"]:
        ctx.case = {"kind": "ambient", "test": v.get("test")}
        ctx.violation(v["monitor"], key=v.get("key"), **v["detail"])
    ctx.case = None
    ctx.evaluations += d.get("tests", 0)


def default_loop(mod, spec, ctx):
    for case in mod.cases(spec, ctx):
        ctx.begin(case)
        try:
            mod.run_case(case, ctx)
        except Exception as e:  # noqa: BLE001
            ctx.escaped(e)
