"""Child interpreter of the C08 cross-process monitor.  argv: specs.json shuffle-seed
Runs under the PYTHONHASHSEED chosen by the parent, boots bcv.env (shims + tree under test from VERIF_REPO), rebuilds
every collection of the spec file with qualifier dicts / value lists / feature-type lists reordered by the shuffle
seed, and prints one JSON document: per spec the guid columns, the exported dictionary in canonical JSON, the
data-model dump (with the parent exported) and the interpreter's hash seed as the child itself sees it."""
import json
import os
import sys

sys.path.insert(0, os.path.dirname(os.path.dirname(os.path.dirname(os.path.abspath(__file__)))))

from bcv import env  # noqa: E402

env.boot()

from bcv.gen import ser  # noqa: E402


def norm(x):
    import uuid

    if isinstance(x, uuid.UUID):
        return str(x)
    if isinstance(x, dict):
        return {str(k): norm(v) for k, v in x.items()}
    if isinstance(x, (list, tuple)):
        return [norm(v) for v in x]
    return x


def main():
    from inscripta.biocantor.io.models import AnnotationCollectionModel

    with open(sys.argv[1]) as fh:
        specs = json.load(fh)
    shuffle = sys.argv[2]
    out = []
    for k, case in enumerate(specs):
        rec = {}
        try:
            parent = ser.build_parent(case["parent"])
            ac = ser.build_collection(case["coll"], parent, ser.Shuffler(None if shuffle == "none" else f"{shuffle}:{k}"))
            rec["columns"] = ser.guid_columns(ac)
            rec["to_dict"] = json.dumps(norm(ac.to_dict()), sort_keys=True)
            # a set iterated in this interpreter's order (evidence that the hash seed really differs between children)
            rec["set_order"] = "".join(sorted({"alpha", "beta", "gamma", "delta", "epsilon", "zeta", "eta", "theta"}, key=hash))
            try:
                model = AnnotationCollectionModel.Schema().load(ac.to_dict(export_parent=True))
                rec["model_dump"] = json.dumps(AnnotationCollectionModel.Schema().dump(model))
            except Exception as e:  # noqa: BLE001 - reported, the parent decides
                rec["model_error"] = f"{type(e).__name__}: {str(e)[:300]}"
        except Exception as e:  # noqa: BLE001
            rec["error"] = f"{type(e).__name__}: {str(e)[:300]}"
        out.append(rec)
    json.dump({"hashseed": os.environ.get("PYTHONHASHSEED"), "flags_hash_randomization": sys.flags.hash_randomization, "records": out}, sys.stdout)


if __name__ == "__main__":
    main()
