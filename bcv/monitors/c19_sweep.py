"""C19 API sweep: enumerate the public surface of an object with ``inspect``, draw typed boundary arguments for every
parameter from its annotation, call, and hand every outcome to the exception-boundary classifier / structural monitors.

Only arguments of the *documented* (annotated) types are passed; a method with a parameter this module cannot type is
skipped and counted (``skipped-untypable``).  Iterators / generators that are returned are exhausted (bounded).
"""
import inspect
import itertools
import random
import uuid
import warnings

from bcv.core import HarnessError
from bcv.monitors import c19_boundary as B
from bcv.monitors import locmon as LM

HUGE = 1 << 40
MAX_ITEMS = 3000

# curated deny-list: (class name or '*', member) -> reason
DENY = {
    ("*", "from_dict"): "static constructor: driven with to_dict() of the same object below (curated call)",
    ("*", "from_location"): "static constructor (corruption-matrix leg and curated call)",
    ("*", "from_chunk_relative_location"): "static constructor (curated call)",
    ("*", "initialize_location"): "static constructor helper (corruption-matrix leg)",
    ("*", "from_single_intervals"): "static constructor (corruption-matrix leg)",
    ("Sequence", "validate_alphabet"): "untyped static helper",
}

# parameters that carry no annotation in the source but are documented in the docstring
CURATED_TYPES = {
    ("Parent", "reset_location", "location"): "OptLocation",
    ("Parent", "equals_except_location", "other"): "Parent",
    ("Parent", "has_ancestor_sequence", "sequence"): "Sequence",
    ("_EmptyLocation", "parent_to_relative_location", "parent_location"): "Location",
}

REL_NAMES = {"relative_pos", "relative_start", "relative_end", "rel_start", "rel_end", "start_pos"}
SIZE_NAMES = {"window_size", "step_size", "extend_start", "extend_end", "extend_upstream", "extend_downstream", "shift", "num_chars", "score"}


def unwrap(raw):
    """-> (kind, function) for a class attribute: kind in prop | method | static | data."""
    kind = "method"
    fn = raw
    for _ in range(8):
        if isinstance(fn, property):
            kind = "prop"
            fn = fn.fget
        elif isinstance(fn, (staticmethod, classmethod)):
            kind = "static"
            fn = fn.__func__
        elif hasattr(fn, "__wrapped__"):
            if type(fn).__name__ == "_PropertyRope":      # methodtools.lru_cache stacked on @property
                kind = "prop"
            fn = fn.__wrapped__
        elif hasattr(fn, "fget") and not inspect.isfunction(fn):
            kind = "prop"
            fn = fn.fget
        else:
            break
    if not callable(fn):
        return "data", None
    return kind, fn


def public_members(obj):
    cls = type(obj)
    out = []
    for name in sorted(set(dir(cls)) | set(getattr(obj, "__dict__", {}))):
        if name.startswith("_"):
            continue
        try:
            raw = inspect.getattr_static(cls, name)
        except AttributeError:
            out.append((name, "data", None))
            continue
        kind, fn = unwrap(raw)
        out.append((name, kind, fn))
    return out


# ---------------------------------------------------------------------------------------------------------------
# typed argument candidates
# ---------------------------------------------------------------------------------------------------------------
def _ann_str(a):
    if a is inspect.Parameter.empty:
        return ""
    if isinstance(a, str):
        return a
    s = str(a)
    if isinstance(a, type):
        s = a.__name__
    return s


class Frame:
    """Reference numbers and companion objects of one swept object."""

    def __init__(self, obj, fr, rng):
        from inscripta.biocantor.gene.interval import AbstractInterval
        from inscripta.biocantor.location.location import Location

        self.obj = obj
        self.fr = fr
        self.rng = rng
        self.glen = fr.get("glen")
        self.L = None
        try:
            self.L = len(obj)
        except Exception:  # noqa: BLE001
            pass
        self.loc = None          # the location whose coordinate system arguments live in
        self.chrom = None
        if isinstance(obj, Location):
            self.loc = obj
        elif isinstance(obj, AbstractInterval):
            try:
                self.loc = obj.chunk_relative_location
                self.chrom = obj.chromosome_location
            except Exception:  # noqa: BLE001
                pass
        self.S = self.E = None
        for l in (self.chrom, self.loc):
            if l is not None and not LM.is_empty_singleton(l):
                self.S, self.E = l.start, l.end
                break
        self.cS = self.cE = None
        if self.loc is not None and not LM.is_empty_singleton(self.loc):
            self.cS, self.cE = self.loc.start, self.loc.end

    # ---- ints -------------------------------------------------------------------------------------------------
    def ints(self, pname, mname):
        small = [("-1", -1), ("0", 0), ("1", 1), ("2", 2), ("3", 3)]
        L = self.L if self.L is not None else 4
        rel = [("len-1", L - 1), ("len", L), ("len+1", L + 1)]
        huge = [("huge", HUGE)]
        if pname in REL_NAMES or (pname == "pos" and not mname.startswith(("sequence_pos", "chunk_relative_pos"))):
            c = small + rel + huge
        elif pname in SIZE_NAMES:
            c = small + rel + huge
        elif "chunk_relative" in mname and self.cS is not None:
            c = small[:3] + [("cstart", self.cS), ("cstart+1", self.cS + 1), ("cend-1", self.cE - 1), ("cend", self.cE), ("cend+1", self.cE + 1)] + huge
        else:
            c = small[:3]
            if self.S is not None:
                c += [("start-1", self.S - 1), ("start", self.S), ("start+1", self.S + 1), ("end-1", self.E - 1), ("end", self.E), ("end+1", self.E + 1)]
            if self.glen:
                c += [("glen-1", self.glen - 1), ("glen", self.glen), ("glen+1", self.glen + 1)]
            c += huge
        seen, out = set(), []
        for lab, v in c:
            if v not in seen:
                seen.add(v)
                out.append((lab, v))
        return out

    # ---- locations --------------------------------------------------------------------------------------------
    def locations(self):
        from inscripta.biocantor.location.location_impl import SingleInterval, CompoundInterval, EmptyLocation
        from inscripta.biocantor.location.strand import Strand
        from inscripta.biocantor.parent import Parent

        if hasattr(self, "_locs"):
            return self._locs
        out = [("empty-singleton", EmptyLocation())]
        base = self.loc if (self.loc is not None and not LM.is_empty_singleton(self.loc)) else self.chrom
        if base is None or LM.is_empty_singleton(base):
            S, E, par, st = 2, 8, None, Strand.PLUS
        else:
            S, E, st = base.start, base.end, base.strand
            par = base.parent.strip_location_info() if base.parent else None
        glen = len(par.sequence) if (par is not None and par.sequence is not None) else None
        other_strand = {Strand.PLUS: Strand.MINUS, Strand.MINUS: Strand.PLUS, Strand.UNSTRANDED: Strand.PLUS}[st]

        def add(label, s, e, strand, parent=par):
            if 0 <= s <= e and (glen is None or e <= glen or parent is not par):
                out.append((label, SingleInterval(s, e, strand, parent)))

        add("whole-span", S, E, st)
        add("whole-span-opposite", S, E, other_strand)
        add("whole-span-unstranded", S, E, Strand.UNSTRANDED)
        add("first-base", S, S + 1, st)
        add("last-base", max(S, E - 1), E, st)
        add("empty-at-start", S, S, st)
        add("empty-at-end", E, E, st)
        add("left-adjacent", max(0, S - 1), S, st)
        add("right-adjacent", E, E + 1, st)
        add("overhang-left", max(0, S - 1), min(E, S + 1), other_strand)
        add("overhang-right", max(S, E - 1), E + 1, st)
        add("far-right", E + 3, E + 5, st)
        if glen:
            add("whole-sequence", 0, glen, st)
        if E - S >= 3:
            out.append(("two-end-bases", CompoundInterval([S, E - 1], [S + 1, E], st, par)))
            out.append(("nested-blocks", CompoundInterval([S, S + 1], [E, E - 1], other_strand, par)))
        if base is not None and not LM.is_empty_singleton(base):
            out.append(("self", base))
            # probes aimed at the inner structure: every gap of the first dozen (whole gap / across a zero-length block sitting in it),
            # and a window from the middle of one block to the middle of a later one
            bl = sorted((b.start, b.end) for b in base.blocks)
            real = [b for b in bl if b[1] > b[0]]
            for j, (a, b2) in enumerate(zip(real, real[1:])):
                if j >= 12:
                    break
                if b2[0] - a[1] >= 1:
                    add(f"gap-{j}", a[1], b2[0], st)
                    if b2[0] - a[1] >= 2:
                        add(f"inside-gap-{j}", a[1] + 1, b2[0], other_strand)
            if len(real) >= 3:
                add("mid-block-to-mid-block", real[0][1] - 1, real[len(real) // 2][0] + 1, st)
        add("whole-span-no-parent" if par is not None else "whole-span-id-parent", S, E, st, None if par is not None else Parent(id="chrX"))
        add("whole-span-other-parent", S, E, st, Parent(id="some-other-sequence"))
        self._locs = out
        return out

    # ---- parents ----------------------------------------------------------------------------------------------
    def parents(self, allow_none):
        from inscripta.biocantor.io.parser import seq_chunk_to_parent, seq_to_parent
        from inscripta.biocantor.parent import Parent, SequenceType

        ps = self.fr.get("pspec") or {}
        genome = ps.get("genome") or "ACGTACGTACGTACGTACGTACGTACGTAC"
        name = ps.get("seqname", "chr1")
        n = len(genome)
        S = self.S if self.S is not None else 2
        E = self.E if self.E is not None else min(n, 8)
        S, E = max(0, min(S, n - 1)), max(1, min(E, n))
        out = [("none", None)] if allow_none else []
        out += [("chromosome", seq_to_parent(genome, seq_id=name)),
                ("chromosome-no-sequence", Parent(id=name, sequence_type=SequenceType.CHROMOSOME)),
                ("chunk-cover", seq_chunk_to_parent(genome[max(0, S - 1):min(n, E + 1)], name, max(0, S - 1), min(n, E + 1))),
                ("other-chromosome", seq_to_parent(genome[::-1], seq_id="chrOther")),
                ("bare-id", Parent(id=name)), ("blank", Parent())]
        if E - S >= 2:
            mid = (S + E) // 2
            out.append(("chunk-cut", seq_chunk_to_parent(genome[mid:min(n, E + 1)], name, mid, min(n, E + 1))))
        if E + 2 <= n:
            out.append(("chunk-miss", seq_chunk_to_parent(genome[E:n], name, E, n)))
        return out

    def sequences(self):
        from inscripta.biocantor.sequence import Sequence, Alphabet

        out = [("fresh", Sequence("ACGTAC", Alphabet.NT_STRICT)), ("empty", Sequence("", Alphabet.NT_STRICT)),
               ("other-alphabet", Sequence("MKV", Alphabet.AA))]
        p = getattr(self.loc, "parent", None) if self.loc is not None else None
        k = 0
        while p is not None and k < 4:
            if p.sequence is not None:
                out.append((f"ancestor-{k}", p.sequence))
            p = p.parent
            k += 1
        from inscripta.biocantor.sequence import Sequence as S2

        if isinstance(self.obj, S2):
            out.append(("self", self.obj))
            out.append(("same-kind", S2(str(self.obj), self.obj.alphabet, type=self.obj.sequence_type, parent=self.obj.parent, validate_parent=False)))
        return out

    def variants(self):
        from inscripta.biocantor.gene.variants import VariantInterval, VariantIntervalCollection

        ps = self.fr.get("pspec")
        genome = (ps or {}).get("genome")
        out = []
        if not genome or self.S is None:
            return out
        n = len(genome)
        S, E = self.S, min(self.E, n)
        for mode in ("same", "none"):
            try:
                from bcv.gen import c19_objects as OBJ

                par = OBJ._gene_parent(ps) if mode == "same" else None
            except Exception:  # noqa: BLE001
                continue
            win = ps.get("window") if (ps and ps.get("mode") == "chunk" and mode == "same") else None

            def ok(s, e):
                return 0 <= s < e <= n and (win is None or not (s < win[0] < e or s < win[1] < e))

            cands = [("snv-first", S, S + 1, "T" if genome[S] != "T" else "G", "SNV"),
                     ("ins-inside", min(E - 1, S + 1), min(E, S + 2), genome[min(E - 1, S + 1)] + "GG", "insertion"),
                     ("del-inside", min(E - 1, S + 1), min(E, S + 4), genome[min(E - 1, S + 1)], "deletion"),
                     ("del-whole", S, E, "", "deletion"),
                     ("snv-before", max(0, S - 1), max(1, S), "A" if genome[max(0, S - 1)] != "A" else "C", "SNV"),
                     ("del-after", E, E + 2, "", "deletion")]
            built = []
            for lab, s, e, alt, vt in cands:
                if ok(s, e):
                    try:
                        v = VariantInterval(s, e, alt, vt, parent_or_seq_chunk_parent=par)
                    except Exception:  # noqa: BLE001
                        continue
                    out.append((f"{lab}/{mode}", v))
                    built.append((s, e, alt, vt))
            picks = [b for b in built if b[3] != "deletion" or b[2]][:2]
            if len(picks) == 2 and picks[0][1] <= picks[1][0]:
                try:
                    vs = [VariantInterval(s, e, alt, vt, parent_or_seq_chunk_parent=par) for s, e, alt, vt in picks]
                    out.append((f"collection/{mode}", VariantIntervalCollection(vs, parent_or_seq_chunk_parent=par)))
                except Exception:  # noqa: BLE001
                    pass
        return out

    def guids(self):
        out = [("random", uuid.UUID(int=self.rng.getrandbits(128))), ("empty-list", [])]
        kids = []
        obj = self.obj
        try:
            if hasattr(obj, "iter_children"):
                kids = list(obj.iter_children())
        except Exception:  # noqa: BLE001
            kids = []
        if kids:
            out.append(("child", kids[0].guid))
            out.append(("children+random", [k.guid for k in kids] + [uuid.UUID(int=1)]))
            gk = []
            for k in kids:
                if hasattr(k, "iter_children"):
                    gk += [x.guid for x in k.iter_children()]
            if gk:
                out.append(("grandchild", gk[0]))
                out.append(("grandchildren", gk))
        return out


def candidates(fr, owner, mname, p, ann):
    """List of (label, value) for one parameter, or None when the parameter cannot be typed."""
    from inscripta.biocantor import DistanceType
    from inscripta.biocantor.gene.cds_frame import CDSFrame
    from inscripta.biocantor.gene.codon import TranslationTable
    from inscripta.biocantor.io.bed import RGB
    from inscripta.biocantor.location.strand import Strand
    from inscripta.biocantor.parent import SequenceType

    a = CURATED_TYPES.get((owner, mname, p.name)) or _ann_str(ann)
    a = a.replace("typing.", "").replace("inscripta.biocantor.", "")
    optional = a.startswith("Optional[") or "NoneType" in a
    default_none = p.default is None
    pn = p.name

    def opt(vals):
        # None only where the signature itself defaults to None ("Optional[int] = 60" is annotation sloppiness, not a contract)
        return ([("None", None)] if default_none else []) + vals

    if pn == "sequence_type" or pn == "ancestor_type":
        return opt([("chromosome", SequenceType.CHROMOSOME), ("chunk", SequenceType.SEQUENCE_CHUNK), ("str-chromosome", "chromosome"),
                    ("str-other", "plasmid")])
    if a in ("int", "Optional[int]"):
        return opt(fr.ints(pn, mname))
    if a in ("bool", "Optional[bool]"):
        return [("F", False), ("T", True)]
    if "Strand" in a and "Dict" not in a:
        return [("+", Strand.PLUS), ("-", Strand.MINUS), (".", Strand.UNSTRANDED)]
    if "DistanceType" in a:
        return [(d.name, d) for d in DistanceType]
    if "TranslationTable" in a:
        return [(t.name, t) for t in TranslationTable]
    if a == "Optional[CDSFrame]":
        return [(f.name, f) for f in CDSFrame if f.name != "NONE"]
    if a in ("Location", "'Location'", "OptLocation") or a.endswith(".Location") or a.endswith("location.Location"):
        return ([("None", None)] if a == "OptLocation" else []) + fr.locations()
    if a == "Sequence" or a == "~Sequence" or a.endswith("sequence.Sequence"):
        return fr.sequences()
    if a == "Parent" or "_lru_cache_wrapper" in a:
        return fr.parents(allow_none=default_none or pn == "new_parent")
    if "VariantInterval" in a:
        v = fr.variants()
        return v or None
    if a.startswith("Union[uuid.UUID, List[uuid.UUID]]") or a.startswith("Union[UUID, List[UUID]]"):
        return fr.guids()
    if a == "Optional[uuid.UUID]" or a == "Optional[UUID]":
        return [("None", None), ("uuid", uuid.UUID(int=7))]
    if a == "Union[str, List[str]]":
        ids = []
        try:
            for k in fr.obj.iter_children():
                ids += [i for i in k.identifiers if isinstance(i, str)]
        except Exception:  # noqa: BLE001
            pass
        return [("unknown", "no-such-id"), ("empty-list", []), ("list", ["no-such-id", "x"])] + ([("known", ids[0]), ("known-list", ids)] if ids else [])
    if a.startswith("Optional[Dict") or a == "Optional[dict]":
        return [("None", None), ("empty", {}), ("one", {"note": {"a", "b"}})]
    if a == "Optional[RGB]":
        return [("black", RGB(0, 0, 0)), ("red", RGB(255, 0, 0))]
    if a in ("str", "Optional[str]"):
        if pn == "child_type":
            return [("feature", "feature"), ("TRANSCRIPT", "TRANSCRIPT"), ("variant", "variant"), ("other", "gene")]
        if pn == "name":
            return [("attr", "guid"), ("literal", "some name"), ("default-attr", "feature_name")]
        return opt([("x", "x1"), ("empty", "")])
    return None


def arg_sets(fr, owner, mname, fn, kind, rng, budget):
    """-> list of (labels tuple, args tuple, kwargs) or None if untypable.  Positional parameters only."""
    try:
        sig = inspect.signature(fn)
    except (TypeError, ValueError):
        return None
    params = [p for p in sig.parameters.values() if p.name not in ("self", "cls")]
    if kind != "static" and list(sig.parameters) and list(sig.parameters)[0] not in ("self", "cls"):
        return None
    if any(p.kind in (p.VAR_POSITIONAL, p.VAR_KEYWORD) for p in params):
        return None
    if not params:
        return [((), (), {})]
    cand = []
    for p in params:
        c = candidates(fr, owner, mname, p, p.annotation)
        if c is None:
            if p.default is not inspect.Parameter.empty:
                c = [("default", inspect.Parameter.empty)]
            else:
                return None
        elif p.default is not inspect.Parameter.empty:
            c = [("default", inspect.Parameter.empty)] + c
        cand.append(c)
    total = 1
    for c in cand:
        total *= len(c)
    out = []
    if total <= budget:
        combos = itertools.product(*cand)
    else:
        seen = set()
        combos = []
        # every candidate of every parameter at least once (others at a random choice), then random fill
        for i, c in enumerate(cand):
            for v in c:
                combo = tuple(v if j == i else rng.choice(cj) for j, cj in enumerate(cand))
                combos.append(combo)
        for _ in range(budget * 3):
            if len(combos) >= budget:
                break
            combos.append(tuple(rng.choice(c) for c in cand))
        uniq = []
        for combo in combos:
            k = tuple(lab for lab, _ in combo)
            if k not in seen:
                seen.add(k)
                uniq.append(combo)
        combos = uniq[:max(budget, sum(len(c) for c in cand))]
    for combo in combos:
        labels = tuple(lab for lab, _ in combo)
        kwargs = {}
        args = []
        positional = True
        for p, (lab, v) in zip(params, combo):
            if v is inspect.Parameter.empty:
                positional = False
                continue
            if positional and p.kind in (p.POSITIONAL_ONLY, p.POSITIONAL_OR_KEYWORD):
                args.append(v)
            else:
                kwargs[p.name] = v
        out.append((labels, tuple(args), kwargs))
    return out


def consume(r):
    """Exhaust returned iterators / generators (bounded)."""
    if inspect.isgenerator(r) or (hasattr(r, "__next__") and hasattr(r, "__iter__")):
        return list(itertools.islice(r, MAX_ITEMS))
    return r


def guarded(fn, *a, **kw):
    with warnings.catch_warnings():
        warnings.simplefilter("ignore")
        return consume(fn(*a, **kw))


# ---------------------------------------------------------------------------------------------------------------
# the sweep proper
# ---------------------------------------------------------------------------------------------------------------
def judge(ctx, where, labels, res, exc, sigbase, reproduce):
    """Classify one outcome.  where = (class name, member); reproduce = JSON-able description of the call."""
    if exc is not None:
        verdict, key, info = B.classify_exception(exc)
        if verdict == "harness":
            raise HarnessError(f"{where} {labels}: exception without a BioCantor frame: {exc!r}")
        ctx.bump("outcome-" + verdict)
        ctx.check("api.exception-class", verdict not in B.FLAGGED, key=key, member=".".join(where), args=list(labels), verdict=verdict,
                  exception=type(exc).__name__, message=str(exc)[:200], frame=info, call=reproduce)
        ctx.note(sigbase + (where[1], labels, type(exc).__name__), klass=None)
        return
    ctx.bump("outcome-returned")
    p = B.value_problem(res)
    ctx.check("api.result-wellformed", p is None, key=(where[0], where[1], (p or "").split(" ")[0]), member=".".join(where), args=list(labels),
              problem=p, result=B.safe_repr(res), call=reproduce)
    ctx.note(sigbase + (where[1], labels, "ok"), klass=None)


def refusal_stable(ctx, where, labels, first_exc, again, reproduce):
    """A request that was refused with a documented exception is refused again when it is repeated on the same object (a refusal must
    not leave a half-built answer behind that the next call hands out)."""
    if first_exc is None or B.classify_exception(first_exc)[0] in B.FLAGGED or B.classify_exception(first_exc)[0] == "harness":
        return
    res, exc = ctx.call(guarded, again)
    ctx.check("api.refusal-stable", exc is not None and type(exc) is type(first_exc), key=(where[0], where[1], type(first_exc).__name__,
                                                                                          "answered" if exc is None else type(exc).__name__),
              member=".".join(where), args=list(labels), first=repr(first_exc)[:200], second=repr(exc)[:200] if exc else None,
              second_result=B.safe_repr(res) if exc is None else None, call=reproduce)


def curated_calls(obj, frame):
    """Operations that are public but not plain named members: the data-model protocol the class itself defines
    (len / str / repr / hash / == / iteration / ordering / pickling via __getstate__), the static constructors driven with
    the object's own export, and the io.models round trip.  -> list of (pseudo-member, labels, thunk)."""
    import pickle

    from inscripta.biocantor.gene.cds import CDSInterval
    from inscripta.biocantor.gene.collections import AnnotationCollection
    from inscripta.biocantor.gene.feature import FeatureInterval, FeatureIntervalCollection
    from inscripta.biocantor.gene.gene import GeneInterval
    from inscripta.biocantor.gene.interval import AbstractInterval
    from inscripta.biocantor.gene.transcript import TranscriptInterval
    from inscripta.biocantor.gene.variants import VariantInterval, VariantIntervalCollection
    from inscripta.biocantor.io import models as MD
    from inscripta.biocantor.location.location import Location
    from inscripta.biocantor.sequence import Sequence

    cls = type(obj)
    out = []

    def defines(name):
        return any(name in vars(k) for k in cls.__mro__ if k is not object)

    if defines("__len__"):
        out.append(("__len__", (), lambda: len(obj)))
    if defines("__str__"):
        out.append(("__str__", (), lambda: str(obj)))
    if defines("__repr__"):
        out.append(("__repr__", (), lambda: repr(obj)))
    if defines("__hash__") and cls.__hash__ is not None:
        out.append(("__hash__", (), lambda: hash(obj)))
    if defines("__eq__"):
        out.append(("__eq__", ("self",), lambda: obj == obj))
        out.append(("__eq__", ("other-type",), lambda: obj == 5))
        out.append(("__eq__", ("none",), lambda: obj != None))  # noqa: E711
    if defines("__iter__"):
        out.append(("__iter__", (), lambda: list(itertools.islice(iter(obj), MAX_ITEMS))))
    if defines("__lt__") and isinstance(obj, Location):
        for lab, other in frame.locations():
            if type(other).__name__ != "_EmptyLocation":
                out.append(("__lt__", (lab,), lambda other=other: obj < other))
    if defines("__getstate__") and defines("__setstate__"):
        out.append(("pickle", ("roundtrip",), lambda: pickle.loads(pickle.dumps(obj))))
    if isinstance(obj, Sequence):
        n = len(obj)
        for lab, key in (("0", 0), ("last", n - 1), ("-1", -1), ("slice-all", slice(0, n)), ("slice-empty-at-end", slice(n, n)), ("slice-inner", slice(1, max(1, n - 1)))):
            if n > 0:
                out.append(("__getitem__", (lab,), lambda key=key: obj[key]))
    if isinstance(obj, AbstractInterval):
        pars = [("none", None)] + [p for p in frame.parents(False) if p[0] in ("chromosome", "chunk-cover", "chunk-miss", "chromosome-no-sequence")]
        for lab, par in pars:
            out.append(("from_dict", ("to_dict()", lab), lambda par=par: cls.from_dict(obj.to_dict(), par)))
        if isinstance(obj, AnnotationCollection):
            out.append(("from_dict", ("to_dict(export_parent)", "default"), lambda: cls.from_dict(obj.to_dict(export_parent=True))))
        if isinstance(obj, (CDSInterval, TranscriptInterval, FeatureInterval)):
            def from_loc(fn, loc):
                if isinstance(obj, CDSInterval):
                    return fn(loc, list(obj.frames))
                if isinstance(obj, TranscriptInterval):
                    return fn(loc, cds=obj.cds)
                return fn(loc)

            out.append(("from_location", ("chromosome_location",), lambda: from_loc(cls.from_location, obj.chromosome_location)))
            out.append(("from_location", ("chunk_relative_location",), lambda: from_loc(cls.from_location, obj.chunk_relative_location)))
            out.append(("from_chunk_relative_location", ("chunk_relative_location",), lambda: from_loc(cls.from_chunk_relative_location, obj.chunk_relative_location)))
            out.append(("from_chunk_relative_location", ("chromosome_location",), lambda: from_loc(cls.from_chunk_relative_location, obj.chromosome_location)))
        model = {TranscriptInterval: ("TranscriptIntervalModel", "from_transcript_interval", "to_transcript_interval"),
                 FeatureInterval: ("FeatureIntervalModel", "from_feature_interval", "to_feature_interval"),
                 VariantInterval: ("VariantIntervalModel", "from_variant_interval", "to_variant_interval"),
                 GeneInterval: ("GeneIntervalModel", "from_gene_interval", "to_gene_interval"),
                 FeatureIntervalCollection: ("FeatureIntervalCollectionModel", "from_feature_collection", "to_feature_collection"),
                 VariantIntervalCollection: ("VariantIntervalCollectionModel", "from_variant_interval_collection", "to_variant_interval_collection"),
                 AnnotationCollection: ("AnnotationCollectionModel", "from_annotation_collection", "to_annotation_collection")}.get(cls)
        if model:
            mname, frm, to = model
            mcls = getattr(MD, mname)
            for lab, par in pars[:3]:
                out.append((f"models.{mname}", ("roundtrip", lab), lambda par=par: getattr(getattr(mcls, frm)(obj), to)(par)))
            if cls is AnnotationCollection:
                out.append((f"models.{mname}", ("roundtrip-export-parent",), lambda: mcls.from_annotation_collection(obj, export_parent=True).to_annotation_collection()))
                out.append((f"models.{mname}", ("schema-dump",), lambda: mcls.Schema().dump(obj)))
    return out


def sweep(ctx, obj, fr, aseed, budget, sigbase, only=None):
    """Sweep every public member of obj.  sigbase: tuple put in front of every call signature."""
    rng = random.Random(aseed)
    frame = Frame(obj, fr, rng)
    owner = type(obj).__name__
    for name, labels, thunk in curated_calls(obj, frame):
        if only and name not in only:
            continue
        res, exc = ctx.call(guarded, thunk)
        if exc is not None and B.classify_exception(exc)[0] == "harness":
            # nothing of BioCantor ran (e.g. the schema library refused the exported record itself): not a boundary event
            ctx.bump("curated-no-biocantor-frame:" + type(exc).__name__)
            continue
        judge(ctx, (owner, name), labels, res, exc, sigbase, {"curated": name, "variant": list(labels)})
    for name, kind, fn in public_members(obj):
        if only and name not in only:
            continue
        if (owner, name) in DENY or ("*", name) in DENY:
            ctx.bump("skipped-denied")
            continue
        where = (owner, name)
        if kind in ("prop", "data"):
            res, exc = ctx.call(guarded, getattr, obj, name)
            judge(ctx, where, ("get",), res, exc, sigbase, {"get": name})
            refusal_stable(ctx, where, ("get",), exc, lambda: getattr(obj, name), {"get": name})
            continue
        sets = arg_sets(frame, owner, name, fn, kind, rng, budget)
        if sets is None:
            ctx.bump("skipped-untypable")
            ctx.bump("skipped-untypable:" + owner + "." + name)
            continue
        try:
            bound = getattr(obj, name)
        except Exception as e:  # noqa: BLE001
            judge(ctx, where, ("getattr",), None, e, sigbase, {"get": name})
            continue
        for labels, args, kwargs in sets:
            res, exc = ctx.call(guarded, bound, *args, **kwargs)
            rep = {"call": name, "args": [repr(a)[:80] for a in args], "kwargs": {k: repr(v)[:80] for k, v in kwargs.items()}}
            judge(ctx, where, labels, res, exc, sigbase, rep)
            refusal_stable(ctx, where, labels, exc, lambda: bound(*args, **kwargs), rep)
