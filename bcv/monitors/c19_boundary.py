"""Exception-boundary classifier and structural monitors for returned objects (C19).

The classifier looks at the exception *type* and at the *traceback* only (never at messages):

  documented      BioCantorException subclasses (incl. the io exception modules, which derive from it),
                  NotImplementedError
  explicit        ValueError / TypeError raised by an explicit ``raise`` statement inside BioCantor
  outside         ValueError / TypeError whose innermost frame is outside BioCantor (e.g. ``Strand(7)`` inside enum)
  INTERNAL        AttributeError, IndexError, KeyError, RecursionError, StopIteration, UnboundLocalError,
                  ZeroDivisionError, AssertionError (also a StopIteration that PEP 479 re-wrapped into RuntimeError)
  IMPLICIT        ValueError / TypeError whose innermost frame is a BioCantor line that is not a ``raise``
                  (``next(None)``, ``None < 3``, ``min(())``, unpacking errors ...)
  other           anything else (not one of the families the property names): counted, never flagged
  harness         BioCantor is not on the stack at all: the harness called something wrongly -> HarnessError

INTERNAL and IMPLICIT are violations; their abstract key is (exception type, file, function) of the innermost BioCantor
frame, so that each distinct leak is reported once.
"""
from bcv.core import innermost_repo_frame
from bcv.monitors import locmon as LM

INTERNAL_TYPES = (AttributeError, IndexError, KeyError, RecursionError, StopIteration, UnboundLocalError, ZeroDivisionError,
                  AssertionError)
FLAGGED = ("INTERNAL", "IMPLICIT")


def classify_exception(e):
    """-> (verdict, key, frame-info).  key = (type name, file, function) of the innermost BioCantor frame."""
    from inscripta.biocantor.exc import BioCantorException

    info = innermost_repo_frame(e.__traceback__)
    tname = type(e).__name__
    if info is None:
        return "harness", (tname, None, None), None
    key = (tname, info["file"], info["func"])
    if isinstance(e, BioCantorException):
        return "documented", key, info
    if isinstance(e, NotImplementedError):
        return "documented", key, info
    if isinstance(e, INTERNAL_TYPES):
        return "INTERNAL", key, info
    if isinstance(e, RuntimeError) and isinstance(e.__cause__, StopIteration):
        return "INTERNAL", ("StopIteration",) + key[1:], info
    if isinstance(e, (ValueError, TypeError)):
        if not info["innermost_is_repo"]:
            return "outside", key, info
        if info["explicit_raise"]:
            return "explicit", key, info
        return "IMPLICIT", key, info
    return "other", key, info


# ---------------------------------------------------------------------------------------------------------------
# structural monitors on returned values
# ---------------------------------------------------------------------------------------------------------------
def _is_location(x):
    from inscripta.biocantor.location.location import Location

    return isinstance(x, Location)


def _is_interval(x):
    from inscripta.biocantor.gene.interval import AbstractInterval

    return isinstance(x, AbstractInterval)


def location_problem(loc):
    p = LM.wellformed(loc)
    if p is None:
        p = LM.span_consistent(loc)
    return p


def interval_problem(iv):
    """Structural invariants of an interval object (CDS / transcript / feature / variant / gene / collection):
    start <= end, genomic blocks consistent (equal numbers, start <= end each, inside [start, end]), one frame per CDS
    block, a well-formed chunk-relative location, children inside the span of their container."""
    from inscripta.biocantor.gene.cds import CDSInterval
    from inscripta.biocantor.gene.interval import AbstractFeatureInterval, AbstractFeatureIntervalCollection
    from inscripta.biocantor.gene.collections import AnnotationCollection

    try:
        loc = iv.chunk_relative_location
    except Exception as e:  # noqa: BLE001
        return f"cannot read chunk_relative_location: {e!r}"
    if isinstance(iv, AnnotationCollection) and LM.is_empty_singleton(loc) and getattr(iv, "start", None) is None:
        return None  # the documented empty, unbounded collection
    try:
        s, e = iv.start, iv.end
    except Exception as ex:  # noqa: BLE001
        return f"cannot read start/end: {ex!r}"
    if not (isinstance(s, int) and isinstance(e, int) and 0 <= s <= e):
        return f"start {s!r} / end {e!r} violate 0 <= start <= end"
    p = location_problem(loc)
    if p is not None:
        return "chunk_relative_location: " + p
    if isinstance(iv, AbstractFeatureInterval):
        gs, ge = list(iv._genomic_starts), list(iv._genomic_ends)
        if len(gs) != len(ge) or not gs:
            return f"{len(gs)} genomic starts vs {len(ge)} genomic ends"
        for a, b in zip(gs, ge):
            if not (0 <= a <= b):
                return f"genomic block {a}-{b} violates 0 <= start <= end"
        if min(gs) < s or max(ge) > e:
            return f"genomic blocks {list(zip(gs, ge))} outside start/end {s}-{e}"
        try:
            cl = iv.chromosome_location
        except Exception as ex:  # noqa: BLE001
            return f"cannot build chromosome_location: {ex!r}"
        p = location_problem(cl)
        if p is not None:
            return "chromosome_location: " + p
    if isinstance(iv, CDSInterval):
        if len(iv.frames) != len(iv._genomic_starts):
            return f"{len(iv.frames)} frames for {len(iv._genomic_starts)} CDS blocks"
    cds = getattr(iv, "cds", None)
    if isinstance(cds, CDSInterval):
        p = interval_problem(cds)
        if p is not None:
            return "cds: " + p
        if cds.start < s or cds.end > e:
            return f"CDS {cds.start}-{cds.end} outside the transcript {s}-{e}"
    if isinstance(iv, AbstractFeatureIntervalCollection) and not isinstance(iv, AnnotationCollection):
        kids = list(iv.iter_children())
        if not kids:
            return "collection without children"
        for k in kids:
            if k.start < s or k.end > e:
                return f"child {k.start}-{k.end} outside the collection span {s}-{e}"
        if len({k.guid for k in kids}) != len(kids):
            return "duplicate children"
    return None


def safe_repr(x, n=200):
    try:
        return repr(x)[:n]
    except Exception as e:  # noqa: BLE001 - an ill-formed object may not even print
        return f"<{type(x).__name__}: repr raised {type(e).__name__}>"


def value_problem(x, depth=0):
    """Problem of a returned value (Locations / intervals, also inside lists and tuples), or None."""
    if _is_location(x):
        return location_problem(x)
    if _is_interval(x):
        return interval_problem(x)
    if isinstance(x, (list, tuple)) and depth < 2:
        for y in x[:200]:
            p = value_problem(y, depth + 1)
            if p is not None:
                return p
    return None
