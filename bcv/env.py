"""Bootstrap: import BioCantor from the working tree under test, with the third-party shims applied first.

``VERIF_REPO`` (default /repo) names the tree under test; it is put first on sys.path and every import of
``inscripta.biocantor`` is asserted to come from it.  Nothing is byte-compiled (-B / PYTHONDONTWRITEBYTECODE).
"""
import os
import sys

VERIF = os.path.dirname(os.path.dirname(os.path.abspath(__file__)))
REPO = os.path.abspath(os.environ.get("VERIF_REPO", "/repo"))
DEPS = os.path.join(VERIF, ".deps")
WORK = os.path.join(VERIF, ".work")

_booted = False


def boot():
    """Idempotent.  Must be called before anything imports inscripta.biocantor."""
    global _booted
    if _booted:
        return
    sys.dont_write_bytecode = True
    for p in (DEPS, VERIF, REPO):
        if p in sys.path:
            sys.path.remove(p)
    # repo first, then the harness, then harness deps at the END (so they can never shadow the repo's packages)
    sys.path.insert(0, VERIF)
    sys.path.insert(0, REPO)
    sys.path.append(DEPS)
    os.environ.setdefault("BIOCANTOR_VERIF", "1")
    from bcv import compat

    compat.apply()
    import inscripta.biocantor as b

    here = os.path.abspath(b.__file__)
    if not here.startswith(REPO + os.sep):
        raise RuntimeError(f"inscripta.biocantor imported from {here}, expected under {REPO}")
    _booted = True


def workdir():
    d = os.path.join(WORK, str(os.getpid()))
    os.makedirs(d, exist_ok=True)
    return d
