"""One shard of one property's workload, in a fresh interpreter.  argv: ID tier seed spec.json out.json"""
import importlib
import json
import os
import sys
import time

sys.path.insert(0, os.path.dirname(os.path.dirname(os.path.abspath(__file__))))

from bcv import env  # noqa: E402

env.boot()

from bcv import core  # noqa: E402
from bcv.monitors import reach  # noqa: E402


def run(pid, tier, seed, spec):
    mod = importlib.import_module(f"bcv.props.{pid.lower()}")
    ctx = core.Ctx(pid, tier, seed, shard=spec.get("i", 0), nshards=spec.get("n", 1))
    ctx.spec = spec
    t0 = time.time()
    try:
        if hasattr(mod, "selftest"):
            mod.selftest()
    except Exception as e:  # noqa: BLE001
        ctx.harness_errors.append({"where": "oracle-selftest", "traceback": repr(e)})
        out = ctx.result()
        out["reach"] = {}
        return out
    reach.watch(getattr(mod, "REACH", []))
    if not os.environ.get("BCV_NO_COVER"):
        reach.cover_start(env.REPO, core.anchor_files(pid))
    if hasattr(mod, "setup"):
        mod.setup(ctx)
    try:
        if hasattr(mod, "run_shard"):
            mod.run_shard(spec, ctx)
        else:
            for case in mod.cases(spec, ctx):
                ctx.begin(case)
                try:
                    mod.run_case(case, ctx)
                except Exception as e:  # noqa: BLE001
                    ctx.escaped(e)
    except Exception as e:  # noqa: BLE001
        ctx.escaped(e, where="run_shard")
    if hasattr(mod, "teardown"):
        mod.teardown(ctx)
    out = ctx.result()
    out["reach"] = reach.counts()
    out["cover"] = reach.cover_result()
    out["wall_s"] = time.time() - t0
    return out


def main():
    pid, tier, seed, specf, outf = sys.argv[1:6]
    with open(specf) as fh:
        spec = json.load(fh)
    out = run(pid, tier, int(seed), spec)
    core.dump(outf, out)


if __name__ == "__main__":
    main()
