"""pytest plugin: applies the third-party shims so that the repository's full test-suite can be collected
(non-binding extra signal when judging a repair; NOT the pinned baseline)."""
from bcv import compat

compat.apply()
