"""Third-party API drift shims (DESIGN.md section 1).  They restore *removed third-party API* only and never
touch BioCantor code.  Each shim is applied only if the installed dependency actually lacks the API.
"""
import sys
import types

APPLIED = []


def _shim_marshmallow():
    try:
        import marshmallow
        from marshmallow import decorators
    except Exception:
        return
    import inspect

    def wrap(orig):
        try:
            params = inspect.signature(orig).parameters
        except (TypeError, ValueError):
            return None
        if "pass_many" in params or "pass_collection" not in params:
            return None

        def shim(fn=None, pass_many=None, **kw):
            if pass_many is not None:
                kw["pass_collection"] = pass_many
            return orig(fn, **kw)

        shim.__wrapped__ = orig
        return shim

    done = False
    for name in ("post_dump", "pre_dump", "post_load", "pre_load", "validates_schema"):
        orig = getattr(decorators, name, None)
        if orig is None or hasattr(orig, "__wrapped__"):
            continue
        s = wrap(orig)
        if s is None:
            continue
        setattr(decorators, name, s)
        if getattr(marshmallow, name, None) is orig:
            setattr(marshmallow, name, s)
        done = True
    if done:
        APPLIED.append("marshmallow: pass_many= forwarded to pass_collection=")


def _shim_biopython():
    try:
        from Bio.SeqFeature import SeqFeature, SimpleLocation, CompoundLocation
    except Exception:
        return
    done = []
    if not hasattr(SeqFeature, "strand"):

        def _strand(self):
            loc = self.location
            return None if loc is None else loc.strand

        def _set_strand(self, value):
            # Biopython <= 1.79: the setter forwards to the location
            if self.location is not None:
                self.location.strand = value

        SeqFeature.strand = property(_strand, _set_strand)
        done.append("SeqFeature.strand")
    import inspect

    if "strand" not in inspect.signature(SeqFeature.__init__).parameters:
        orig_init = SeqFeature.__init__

        def __init__(self, *a, strand=None, **kw):
            orig_init(self, *a, **kw)
            # Biopython <= 1.79 applied the keyword: `self.strand = strand` -> `self.location.strand = strand`
            if strand is not None and self.location is not None:
                self.location.strand = strand

        __init__.__wrapped__ = orig_init
        SeqFeature.__init__ = __init__
        done.append("SeqFeature(strand=) applied to the location as in Biopython <= 1.79")
    for cls in (SimpleLocation, CompoundLocation):
        if not hasattr(cls, "nofuzzy_start"):
            cls.nofuzzy_start = property(lambda self: int(self.start))
            cls.nofuzzy_end = property(lambda self: int(self.end))
            done.append(cls.__name__ + ".nofuzzy_start/end")
    if done:
        APPLIED.append("biopython: " + ", ".join(done))


def _shim_vcf():
    try:
        import vcf  # noqa: F401

        return
    except Exception:
        pass
    vcf = types.ModuleType("vcf")
    model = types.ModuleType("vcf.model")

    class _Record:  # noqa: N801
        pass

    class Reader:
        def __init__(self, *a, **kw):
            raise ImportError("pyvcf is not installed (stub from bcv.compat)")

    model._Record = _Record
    vcf.model = model
    vcf.Reader = Reader
    vcf.__bcv_stub__ = True
    sys.modules["vcf"] = vcf
    sys.modules["vcf.model"] = model
    APPLIED.append("vcf: stub module (no VCF reader installed)")


_applied = False


def apply():
    global _applied
    if _applied:
        return
    _applied = True
    _shim_marshmallow()
    _shim_biopython()
    _shim_vcf()


def assumptions():
    return ["compat shim " + a for a in APPLIED]
