"""Independent reader of the NCBI 5-column feature table (.tbl) format.  No BioCantor imports.

Format (https://www.ncbi.nlm.nih.gov/genbank/feature_table/): a file is a sequence of sections
    >Features <SeqID>[ <table name>]
    <start> TAB <end> TAB <feature key>              first interval of a feature
    <start> TAB <end>                                further intervals of the same feature (5'->3')
    TAB TAB TAB <qualifier key> TAB <qualifier value>  qualifiers of the feature above (the value may be empty: pseudo)
Coordinates are 1-based inclusive; start > end means minus strand; `<` / `>` in front of a coordinate marks the
feature as 5' / 3' partial.  Trailing empty columns may be present or absent; blank lines carry nothing.

parse(text) -> [section]; section = {"header": raw line, "name": SeqID text after '>Features ', "features": [feature]}
feature = {"key", "intervals": [(start, end)] ints without marks, "marks": [(mark_on_start, mark_on_end)] with
"" / "<" / ">", "qualifiers": [(key, value)], "line": 1-based line number}.
"""
import re

_COORD = re.compile(r"^([<>]?)(\d+)$")


class TblFormatError(ValueError):
    pass


def _coord(text, lineno):
    m = _COORD.match(text.strip())
    if not m:
        raise TblFormatError(f"line {lineno}: not a coordinate: {text!r}")
    return m.group(1), int(m.group(2))


def parse(text):
    sections = []
    feature = None
    for lineno, raw in enumerate(text.split("\n"), 1):
        line = raw.rstrip("\r")
        if not line.strip():
            continue
        if line.startswith(">") and not re.match(r">\d", line):  # `>123` at line start is a 3'-partial coordinate, not a header
            if not line.startswith(">Feature"):
                raise TblFormatError(f"line {lineno}: unknown header {line!r}")
            name = line.split(" ", 1)[1] if " " in line else ""
            sections.append({"header": line, "name": name, "features": []})
            feature = None
            continue
        if not sections:
            raise TblFormatError(f"line {lineno}: data before the first >Features header")
        cols = line.split("\t")
        if len(cols) > 5:
            raise TblFormatError(f"line {lineno}: {len(cols)} columns")
        cols += [""] * (5 - len(cols))
        if cols[0] or cols[1]:
            # interval line: columns 4 and 5 must be empty
            if cols[3] or cols[4]:
                raise TblFormatError(f"line {lineno}: interval line with qualifier columns: {line!r}")
            (m1, a), (m2, b) = _coord(cols[0], lineno), _coord(cols[1], lineno)
            if cols[2]:
                feature = {"key": cols[2], "intervals": [], "marks": [], "qualifiers": [], "line": lineno}
                sections[-1]["features"].append(feature)
            elif feature is None or feature["qualifiers"]:
                raise TblFormatError(f"line {lineno}: continuation interval without an open feature")
            feature["intervals"].append((a, b))
            feature["marks"].append((m1, m2))
        else:
            if cols[2] or not cols[3]:
                raise TblFormatError(f"line {lineno}: neither an interval nor a qualifier line: {line!r}")
            if feature is None:
                raise TblFormatError(f"line {lineno}: qualifier without a feature")
            feature["qualifiers"].append((cols[3], cols[4]))
    return sections


def partial5(feature):
    """`<` in front of the first coordinate of the first interval."""
    return feature["marks"][0][0] == "<"


def partial3(feature):
    """`>` in front of the last coordinate of the last interval."""
    return feature["marks"][-1][1] == ">"


def stray_marks(feature):
    """Marks anywhere else than (first coordinate: '<') and (last coordinate: '>')."""
    out = []
    n = len(feature["marks"])
    for i, (m1, m2) in enumerate(feature["marks"]):
        if m1 and not (i == 0 and m1 == "<"):
            out.append((i, 0, m1))
        if m2 and not (i == n - 1 and m2 == ">"):
            out.append((i, 1, m2))
    return out


def qualifier(feature, key):
    """All values of a qualifier key, in file order."""
    return [v for k, v in feature["qualifiers"] if k == key]


def strand_of(feature):
    """'+' / '-' / None (undetermined: every interval is 1 bp long)."""
    for a, b in feature["intervals"]:
        if a < b:
            return "+"
        if a > b:
            return "-"
    return None


_EXAMPLE = (">Feature gb|CM021127.1|\n<14406\t14026\tgene\n\t\t\tgene\tTDA8\n\t\t\tlocus_tag\tGI527_G0000001\n"
            "<14406\t14393\tmRNA\n14390\t14382\n14380\t14026\n\t\t\tproduct\tTda8p\n\t\t\tlocus_tag\tGI527_G0000001\n"
            "1\t>30\tCDS\t\t\n\t\t\tcodon_start\t2\n\t\t\tpseudo\t\n")


def selftest():
    s = parse(_EXAMPLE)
    assert len(s) == 1 and s[0]["name"] == "gb|CM021127.1|" and [f["key"] for f in s[0]["features"]] == ["gene", "mRNA", "CDS"]
    g, m, c = s[0]["features"]
    assert g["intervals"] == [(14406, 14026)] and partial5(g) and not partial3(g) and strand_of(g) == "-"
    assert m["intervals"] == [(14406, 14393), (14390, 14382), (14380, 14026)] and partial5(m) and not stray_marks(m)
    assert qualifier(m, "locus_tag") == ["GI527_G0000001"] and qualifier(m, "product") == ["Tda8p"]
    assert c["intervals"] == [(1, 30)] and partial3(c) and not partial5(c) and qualifier(c, "codon_start") == ["2"]
    assert qualifier(c, "pseudo") == [""] and strand_of(c) == "+"
    assert stray_marks(parse(">Features x\n>5\t<9\tCDS\n")[0]["features"][0]) == [(0, 0, ">"), (0, 1, "<")]
    for bad in ("1\t2\tgene\n", ">Features x\n1\tz\tgene\n", ">Features x\n\t\t\tgene\tq\n", ">Features x\n1\t2\n"):
        try:
            parse(bad)
        except TblFormatError:
            continue
        raise AssertionError(f"malformed table accepted: {bad!r}")
