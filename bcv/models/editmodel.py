"""Edit-script reference model of a variant haplotype (no BioCantor code).

An *edit* is ``(start, end, alt)``: the reference bases ``[start, end)`` (``end > start``) are literally replaced by the
string ``alt`` (which may be empty).  A haplotype is a list of mutually non-overlapping edits; touching edits
(``e1.end == e2.start``) are allowed.  Everything is in the coordinates of the string that is passed in (for a chunk:
chunk-relative).

``apply(ref, edits)`` walks the reference once, left to right, and builds the alternative string character by
character.  Next to the string it returns

* ``base_map[i]``  - for every reference base ``i`` its coordinate on the alternative string, or ``DELETED``.
  Untouched bases keep their identity.  Inside an edit the convention is the one BioCantor's module docstring and VCF
  use ("left padded"): the j-th reference base of the edit is the j-th base of ``alt`` if there is one, otherwise it is
  deleted; surplus ``alt`` bases (insertions) belong to no reference base.
* ``origin[a]``    - for every alternative base ``a`` where it came from: ``("ref", i)`` or ``("edit", k, j)``
  (j-th character of the alt allele of the k-th edit, k counted in sorted order).

``image(ref_len, edits, block)`` is what the property calls "the edited image of the reference bases" of a block
``[bs, be)`` that *contains or avoids every edit entirely*: the alternative coordinates of its untouched bases plus
all alternative bases of the edits it contains.  It does not depend on the padding convention.  A block that
straddles an edit has no image here (``None``).
"""

DELETED = "deleted"


def normalise(ref_len, edits):
    """Sorted list of (start, end, alt) tuples; raises ValueError on malformed / overlapping / out-of-range edits."""
    es = sorted((int(s), int(e), str(a)) for (s, e, a, *_) in edits)
    prev_end = 0
    for s, e, a in es:
        if not (0 <= s < e <= ref_len):
            raise ValueError(f"edit {(s, e, a)} outside the reference [0, {ref_len}) or empty")
        if s < prev_end:
            raise ValueError(f"edit {(s, e, a)} overlaps the previous one")
        prev_end = e
    return es


def apply(ref, edits):
    """-> (alt string, base_map, origin); see the module docstring."""
    es = normalise(len(ref), edits)
    out = []
    origin = []
    base_map = [None] * len(ref)
    i = 0
    k = 0
    while i < len(ref):
        if k < len(es) and es[k][0] == i:
            s, e, alt = es[k]
            for j, ch in enumerate(alt):
                if j < e - s:
                    base_map[s + j] = len(out)
                out.append(ch)
                origin.append(("edit", k, j))
            for j in range(len(alt), e - s):
                base_map[s + j] = DELETED
            i = e
            k += 1
        else:
            base_map[i] = len(out)
            out.append(ref[i])
            origin.append(("ref", i))
            i += 1
    return "".join(out), base_map, origin


def alt_string(ref, edits):
    return apply(ref, edits)[0]


def relation(block, edit):
    """'contains' | 'avoids' | 'straddles' for a non-empty block [bs, be) and an edit (s, e, alt)."""
    bs, be = block
    s, e = edit[0], edit[1]
    if bs <= s and e <= be:
        return "contains"
    if e <= bs or be <= s:
        return "avoids"
    return "straddles"


def in_scope(blocks, edits):
    """True when every block contains or avoids every edit entirely (the locations the property speaks about)."""
    return all(relation(b, ed) != "straddles" for b in blocks for ed in edits)


def image(ref_len, edits, block):
    """Sorted alternative coordinates covered by the edited image of `block`, or None if the block straddles an edit."""
    es = normalise(ref_len, edits)
    if any(relation(block, ed) == "straddles" for ed in es):
        return None
    _, _, origin = apply("N" * ref_len, es)
    bs, be = block
    out = []
    for a, o in enumerate(origin):
        if o[0] == "ref":
            if bs <= o[1] < be:
                out.append(a)
        elif relation(block, es[o[1]]) == "contains":
            out.append(a)
    return out


def boundary(edits, b):
    """Second, closed-form derivation used to cross-check `image`: alternative coordinate of the boundary in front of
    reference base b (b must not lie strictly inside an edit) = b + sum of the length changes of all edits ending <= b."""
    return b + sum(len(a) - (e - s) for (s, e, a, *_) in edits if e <= b)


def location_image(ref_len, edits, blocks):
    """Union of the block images (sorted), or None when some block straddles an edit."""
    out = set()
    for b in blocks:
        im = image(ref_len, edits, b)
        if im is None:
            return None
        out.update(im)
    return sorted(out)


def deleted_entirely(ref_len, edits, blocks):
    """True when the location is non-empty and every base of every block is DELETED in the base map (left-padded
    reading of a padded deletion).  Whether that reading is forced (the alt allele is a literal prefix of the replaced
    reference bases) needs the reference and is checked by the caller with `true_left_pad`."""
    _, base_map, _ = apply("N" * ref_len, edits)
    return any(e > s for s, e in blocks) and all(base_map[p] == DELETED for (s, e) in blocks for p in range(s, e))


def true_left_pad(ref, edit):
    """The alt allele is literally the first len(alt) reference bases of the edit (so the remaining ones are deleted)."""
    s, e, alt = edit[0], edit[1], edit[2]
    return len(alt) < e - s and ref[s:s + len(alt)] == alt


class Haplotype:
    """One reference string with one edit script: alt string, maps and block / location images computed once."""

    def __init__(self, ref, edits):
        self.ref = ref
        self.edits = normalise(len(ref), edits)
        self.alt, self.base_map, self.origin = apply(ref, self.edits)

    def in_scope(self, blocks):
        return in_scope(blocks, self.edits)

    def image(self, block):
        if any(relation(block, ed) == "straddles" for ed in self.edits):
            return None
        bs, be = block
        out = []
        for a, o in enumerate(self.origin):
            if o[0] == "ref":
                if bs <= o[1] < be:
                    out.append(a)
            elif relation(block, self.edits[o[1]]) == "contains":
                out.append(a)
        return out

    def location_image(self, blocks):
        out = set()
        for b in blocks:
            im = self.image(tuple(b))
            if im is None:
                return None
            out.update(im)
        return sorted(out)

    def plus_sequence(self, blocks):
        """Plus-strand spliced sequence of the edited image (None when out of scope)."""
        im = self.location_image(blocks)
        return None if im is None else "".join(self.alt[a] for a in im)

    def length_changes(self):
        return [len(a) - (e - s) for (s, e, a) in self.edits]


def selftest():
    """Literal examples of the module docstring of inscripta/biocantor/gene/variants.py (and the two collection
    strings its upstream test derives from the same reference)."""
    ref = "ACTCTCTCTATCTCATCCAC"
    snp_1 = (1, 2, "G")
    insertion_5 = (5, 6, "GGC")
    deletion_11_13 = (10, 13, "T")
    deletion_13_15 = (13, 15, "")
    assert alt_string(ref, [snp_1]) == "AGTCTCTCTATCTCATCCAC"
    assert alt_string(ref, [insertion_5]) == "ACTCTGGCTCTATCTCATCCAC"
    assert alt_string(ref, [deletion_11_13]) == "ACTCTCTCTAT" + "CATCCAC"
    assert alt_string(ref, [deletion_13_15]) == "ACTCTCTCTATCT" + "TCCAC"
    assert alt_string(ref, [deletion_11_13, snp_1, insertion_5]) == "AGTCTGGCTCTATCATCCAC"
    assert alt_string(ref, [snp_1, insertion_5, deletion_11_13, deletion_13_15]) == "AGTCTGGCTCTATTCCAC"
    assert alt_string(ref, []) == ref
    # per-base map
    _, m, o = apply(ref, [deletion_11_13])
    assert m[9] == 9 and m[10] == 10 and m[11] == DELETED and m[12] == DELETED and m[13] == 11 and m[19] == 17
    _, m, o = apply(ref, [insertion_5])
    assert m[4] == 4 and m[5] == 5 and m[6] == 8 and o[5] == ("edit", 0, 0) and o[7] == ("edit", 0, 2) and o[8] == ("ref", 6)
    _, m, _ = apply(ref, [deletion_13_15])
    assert m[12] == 12 and m[13] == DELETED and m[14] == DELETED and m[15] == 13
    _, m, _ = apply(ref, [snp_1, insertion_5, deletion_11_13, deletion_13_15])
    assert [m[i] for i in (0, 1, 5, 6, 10, 11, 12, 13, 14, 15, 19)] == [0, 1, 5, 8, 12, DELETED, DELETED, DELETED, DELETED, 13, 17]
    # images (documented lift-over examples: insertion_5 lifts 0-10 to 0-12, deletion_11_13 lifts 0-15 to 0-13,
    # {snp, ins, del} lifts 0-16 to 0-16 and {snp, ins, del, del} lifts 0-16 to 0-14)
    assert image(20, [insertion_5], (0, 10)) == list(range(0, 12))
    assert image(20, [deletion_11_13], (0, 15)) == list(range(0, 13))
    assert image(20, [snp_1, insertion_5, deletion_11_13], (0, 16)) == list(range(0, 16))
    assert image(20, [snp_1, insertion_5, deletion_11_13, deletion_13_15], (0, 16)) == list(range(0, 14))
    assert image(20, [insertion_5, deletion_11_13], (5, 10)) == list(range(5, 12))
    assert image(20, [insertion_5, deletion_11_13], (12, 18)) is None
    assert image(20, [deletion_13_15], (13, 15)) == []
    assert image(20, [deletion_13_15], (15, 20)) == list(range(13, 18))
    assert relation((5, 10), insertion_5) == "contains" and relation((6, 10), insertion_5) == "avoids"
    assert relation((11, 14), deletion_11_13) == "straddles"
    assert deleted_entirely(20, [deletion_11_13], [(11, 13)]) and not deleted_entirely(20, [deletion_11_13], [(10, 13)])
    assert true_left_pad(ref, deletion_11_13) and true_left_pad(ref, deletion_13_15) and not true_left_pad(ref, (10, 13, "C"))
    h = Haplotype(ref, [snp_1, insertion_5, deletion_11_13, deletion_13_15])
    # the gene example of the upstream test, restricted to the blocks the property speaks about
    assert h.plus_sequence([(0, 3)]) == "AGT" and h.plus_sequence([(5, 10)]) == "GGCTCTA" and h.plus_sequence([(12, 18)]) is None
    assert h.plus_sequence([(0, 15)]) == "AGTCTGGCTCTAT" and h.location_image([(0, 3), (5, 10)]) == [0, 1, 2, 5, 6, 7, 8, 9, 10, 11]
    assert h.image((13, 15)) == [] and h.location_image([(17, 20)]) == [15, 16, 17]
    # closed form agrees with the walk on a sweep of small scripts
    import itertools

    menu = [(1, 2, "G"), (2, 3, "TTT"), (3, 6, "A"), (6, 8, ""), (8, 9, "CC"), (9, 10, "")]
    for r in (1, 2, 3):
        for es in itertools.combinations(menu, r):
            try:
                es = normalise(10, es)
            except ValueError:
                continue
            alt, m, o = apply("ACGTACGTAC", es)
            assert len(alt) == 10 + sum(len(a) - (e - s) for s, e, a in es) == len(o)
            for bs in range(0, 10):
                for be in range(bs + 1, 11):
                    im = image(10, es, (bs, be))
                    if im is None:
                        continue
                    assert im == list(range(boundary(es, bs), boundary(es, be))), (es, bs, be, im)
    try:
        normalise(20, [(10, 13, "T"), (12, 13, "")])
    except ValueError:
        pass
    else:
        raise AssertionError("overlapping edits accepted")
