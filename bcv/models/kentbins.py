"""UCSC binning scheme, transcribed from kent src/lib/binRange.c (binFromRangeStandard / binFromRangeExtended shape):
first shift 17, next shift 3, five levels, with the level offsets documented in BioCantor's util/bins.py
(4681 / 585 / 73 / 9 / 1; bin 1 = 'somewhere on the chromosome').  Coordinates are 0-based half-open (BED)."""

FIRST_SHIFT = 17
NEXT_SHIFT = 3
OFFSETS = (4681, 585, 73, 9, 1)
MAX = 1 << 29


def in_range(start, end):
    return 0 <= start < MAX and 0 <= end < MAX


def smallest_bin(start, end):
    """Smallest bin containing [start, end) (end > start); 1 when out of range."""
    if not in_range(start, end):
        return 1
    s = start >> FIRST_SHIFT
    e = (end - 1) >> FIRST_SHIFT
    for off in OFFSETS:
        if s == e:
            return off + s
        s >>= NEXT_SHIFT
        e >>= NEXT_SHIFT
    return 1


def bin_extent(b):
    """[lo, hi) covered by bin number b."""
    shift = FIRST_SHIFT
    for off, nxt in zip(OFFSETS, OFFSETS[1:] + (0,)):
        # bins of this level are off .. (previous/finer level's offset - 1)
        pass
    levels = [(4681, 17, 4096), (585, 20, 512), (73, 23, 64), (9, 26, 8), (1, 29, 1)]
    for off, sh, n in levels:
        if off <= b < off + n:
            return ((b - off) << sh, (b - off + 1) << sh)
    raise ValueError(b)


def overlapping_bins(start, end):
    """All bins whose extent overlaps [start, end)."""
    out = set()
    s = start >> FIRST_SHIFT
    e = (end - 1) >> FIRST_SHIFT
    for off in OFFSETS:
        out.update(range(off + s, off + e + 1))
        s >>= NEXT_SHIFT
        e >>= NEXT_SHIFT
    return out


def selftest():
    # Fig. 7 style checks on the real numbering: one finest bin = 128 kb
    assert smallest_bin(0, 1) == 4681
    assert smallest_bin(0, 1 << 17) == 4681
    assert smallest_bin(0, (1 << 17) + 1) == 585
    assert smallest_bin((1 << 17) - 1, (1 << 17) + 1) == 585
    assert smallest_bin(1 << 17, (1 << 17) + 5) == 4682
    assert smallest_bin((1 << 20) - 1, (1 << 20) + 1) == 73
    assert smallest_bin((1 << 26) - 1, (1 << 26) + 1) == 1
    assert smallest_bin(MAX, MAX + 1) == 1
    assert bin_extent(4681) == (0, 1 << 17) and bin_extent(585) == (0, 1 << 20) and bin_extent(1) == (0, 1 << 29)
    assert bin_extent(586) == (1 << 20, 2 << 20)
    for s, e in [(5, 9), (131071, 131073), (1 << 23, (1 << 23) + 1), (1000000, 9000000)]:
        lo, hi = bin_extent(smallest_bin(s, e))
        assert lo <= s and e <= hi
        assert smallest_bin(s, e) in overlapping_bins(s, e)
