"""Position-list reference model of a Location.  A location is the Python list P of parent positions in 5'->3'
order, built from (blocks, strand) with plain comprehensions; set operations are operations on frozenset(P).
No BioCantor code is used here.  Strand is the symbol '+', '-' or '.'."""


def positions(blocks, strand):
    """blocks: iterable of (start, end) half-open, in any order.  For '+'/'.': ascending blocks, ascending bases;
    for '-': blocks and bases reversed.  Blocks are ordered the way the library documents: by (start, end) on plus,
    by (start, -end) otherwise (only matters for overlapping blocks)."""
    if strand == "+":
        bs = sorted(blocks, key=lambda b: (b[0], b[1]))
    else:
        bs = sorted(blocks, key=lambda b: (b[0], -b[1]))
    if strand == "-":
        return [p for (s, e) in reversed(bs) for p in range(e - 1, s - 1, -1)]
    return [p for (s, e) in bs for p in range(s, e)]


def posset(blocks):
    return frozenset(p for (s, e) in blocks for p in range(s, e))


def runs(pset):
    """Maximal runs of a set of integers as sorted (start, end) half-open pairs."""
    out = []
    for p in sorted(pset):
        if out and out[-1][1] == p:
            out[-1][1] = p + 1
        else:
            out.append([p, p + 1])
    return [tuple(r) for r in out]


def self_overlapping(blocks):
    seen = set()
    for s, e in blocks:
        for p in range(s, e):
            if p in seen:
                return True
            seen.add(p)
    return False


def compose_strand(a, b):
    if a == "." or b == ".":
        return "."
    return "+" if a == b else "-"


def read_location(loc):
    """Read a *result* location through its public surface only: (blocks, strand symbol) or None when empty."""
    if loc.is_empty and type(loc).__name__ == "_EmptyLocation":
        return None
    return [(b.start, b.end) for b in loc.blocks], loc.strand.to_symbol()


def selftest():
    assert positions([(0, 3), (5, 7)], "+") == [0, 1, 2, 5, 6]
    assert positions([(0, 3), (5, 7)], "-") == [6, 5, 2, 1, 0]
    assert positions([(5, 7), (0, 3)], ".") == [0, 1, 2, 5, 6]
    assert positions([(3, 5), (3, 3)], "+") == [3, 4]
    assert runs({1, 2, 3, 7, 9, 10}) == [(1, 4), (7, 8), (9, 11)]
    assert compose_strand("-", "-") == "+" and compose_strand("+", "-") == "-" and compose_strand(".", "-") == "."
    assert self_overlapping([(0, 5), (3, 8)]) and not self_overlapping([(0, 5), (5, 8)])
