"""Reading-frame reference model of a CDS (no BioCantor code).

A CDS is a list of blocks (start, end) in chromosome coordinates, a strand symbol and one annotated frame per block
(ints 0/1/2, listed in plus-strand block order exactly as BioCantor stores them).

Model (the property's wording): walk the exons 5'->3'; the running frame starts at 0; wherever an exon's annotated
frame differs from the running frame, drop the dangling incomplete codon accumulated so far, skip `frame` bases at
the start of that exon and restart the running frame at 0; the codons are the consecutive triplets of the bases
kept.  A start offset is the special case "first exon annotated with frame f != 0".
"""
from Bio.Data import CodonTable

from bcv.models import posmodel as PM
from bcv.models import seqmodel as SM

_T1 = CodonTable.unambiguous_dna_by_id[1]
_T11 = CodonTable.unambiguous_dna_by_id[11]
FWD = dict(_T1.forward_table)
for _s in _T1.stop_codons:
    FWD[_s] = "*"
STARTS = {"DEFAULT": {"ATG"}, "STANDARD": set(_T1.start_codons), "PROKARYOTE": set(_T11.start_codons)}
STOPS = set(_T1.stop_codons)


def exons_5to3(blocks, strand):
    """Blocks in transcription order, each as its position list in 5'->3' order; frames must be reordered alike."""
    bs = list(blocks)
    if strand == "-":
        return [list(range(e - 1, s - 1, -1)) for (s, e) in reversed(bs)]
    return [list(range(s, e)) for (s, e) in bs]


def frames_5to3(frames, strand):
    return list(reversed(frames)) if strand == "-" else list(frames)


def kept_positions(blocks, strand, frames):
    """Chromosome positions (5'->3') that remain after frame cleaning, before cutting into triplets."""
    kept = []
    running = 0
    for exon, f in zip(exons_5to3(blocks, strand), frames_5to3(frames, strand)):
        if f != running:
            drop = len(kept) % 3
            if drop:
                del kept[-drop:]
            exon = exon[f:]
            running = 0
        kept.extend(exon)
        running = (running + len(exon)) % 3
    return kept


def codons(blocks, strand, frames):
    """List of codons, each a list of 3 chromosome positions in 5'->3' order."""
    kept = kept_positions(blocks, strand, frames)
    n = len(kept) - len(kept) % 3
    return [kept[i:i + 3] for i in range(0, n, 3)]


def cds_sequence(blocks, strand, frames, genome):
    return "".join(SM.extract(c, strand, genome) for c in codons(blocks, strand, frames))


def translate(seq, table="DEFAULT", strict=True):
    """Protein of an in-frame sequence: standard code; the first codon becomes M when it is a start codon of `table`.
    Returns None when strict and a codon is not ACGT-only (the library raises ValueError there)."""
    seq = seq.upper()
    out = []
    for i in range(0, len(seq) - len(seq) % 3, 3):
        c = seq[i:i + 3]
        if i == 0 and c in STARTS[table]:
            out.append("M")
        elif c in FWD:
            out.append(FWD[c])
        elif strict:
            return None
        else:
            out.append(None)  # caller decides (X or the unanimous amino acid)
    return out


def consistent_frames(blocks, strand, start_offset=0):
    """Annotated frames (plus-strand block order) describing ONE uninterrupted reading frame that starts after
    skipping `start_offset` bases of the first (5') exon.  Running-frame semantics as in kept_positions."""
    ex = exons_5to3(blocks, strand)
    fr = []
    consumed = 0
    for k, e in enumerate(ex):
        if k == 0:
            fr.append(start_offset)
            consumed = max(0, len(e) - start_offset)
        else:
            fr.append(consumed % 3)
            consumed += len(e)
    return list(reversed(fr)) if strand == "-" else fr


def uninterrupted_codons(blocks, strand, start_offset):
    """Codons of ONE uninterrupted frame: skip start_offset bases 5', then triplets, no internal drop."""
    flat = [p for e in exons_5to3(blocks, strand) for p in e][start_offset:]
    n = len(flat) - len(flat) % 3
    return [flat[i:i + 3] for i in range(0, n, 3)]


def selftest():
    # construct_frames_from_location docstring table: exons [0-5, 7-11, 12-18]
    b = [(0, 5), (7, 11), (12, 18)]
    assert consistent_frames(b, "+", 0) == [0, 2, 0]
    assert consistent_frames(b, "+", 1) == [1, 1, 2]
    assert consistent_frames(b, "+", 2) == [2, 0, 1]
    assert consistent_frames(b, "-", 0) == [1, 0, 0]
    assert consistent_frames(b, "-", 1) == [0, 2, 1]
    assert consistent_frames(b, "-", 2) == [2, 1, 2]
    for st in "+-":
        for off in (0, 1, 2):
            assert codons(b, st, consistent_frames(b, st, off)) == uninterrupted_codons(b, st, off)
    # a programmed frameshift: second exon claims frame 0 although 5 bases were read -> drop 2, skip 0
    assert codons([(0, 5), (7, 13)], "+", [0, 0]) == [[0, 1, 2], [7, 8, 9], [10, 11, 12]]
    # second exon claims frame 1 although running frame is 2 -> drop 2 dangling bases, skip 1
    assert codons([(0, 5), (7, 14)], "+", [0, 1]) == [[0, 1, 2], [8, 9, 10], [11, 12, 13]]
    assert translate("ATGTAA") == ["M", "*"] and translate("TTGAAA", "PROKARYOTE") == ["M", "K"] and translate("TTGAAA") == ["L", "K"]
    assert cds_sequence([(0, 6)], "-", [0], "AAACAT") == "ATGTTT"
