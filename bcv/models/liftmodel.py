"""Reference model of a nested coordinate hierarchy (C04).  No BioCantor code is used here.

A hierarchy is a root string plus a list of levels; level i (1-based) is placed on level i-1 by (blocks, strand).
The model keeps, for every level i >= 1, the position list M_i = posmodel.positions(blocks_i, strand_i): M_i[r] is the
level-(i-1) coordinate of base r of level i, and strand_i is its orientation.  The sequence string of level i is
seqmodel.extract(M_i, strand_i, string of level i-1).  Lifting a position list P (5'->3', strand s) given on level d to
level j <= d is the composition  P -> [M_d[p] for p in P] -> ... -> level j,  the strand is composed alongside.

A chunk window (cs, ce, chunk strand) is the one-level hierarchy with blocks ((cs, ce),): pushing a chromosome position
list *down* keeps the positions inside [cs, ce) and re-expresses them in chunk coordinates.
"""
from bcv.models import posmodel as PM
from bcv.models import seqmodel as SM


class Hier:
    def __init__(self, root, levels):
        """root: genome string (or an int length when no sequence is modelled); levels: [(blocks, strand), ...]."""
        self.has_seq = isinstance(root, str)
        self.lengths = [len(root) if self.has_seq else int(root)]
        self.strings = [root if self.has_seq else None]
        self.maps = []
        for blocks, strand in levels:
            blocks = [tuple(b) for b in blocks]
            n = self.lengths[-1]
            if any(not (0 <= s <= e <= n) for s, e in blocks):
                raise ValueError(f"level {len(self.maps) + 1}: blocks {blocks} outside parent of length {n}")
            M = PM.positions(blocks, strand)
            self.maps.append((M, strand))
            self.lengths.append(len(M))
            self.strings.append(SM.extract(M, strand, self.strings[-1]) if self.has_seq else None)

    @property
    def depth(self):
        return len(self.maps)

    def lift(self, P, strand, d, j):
        """Position list P with strand on level d -> (position list, strand) on level j (j <= d)."""
        if not 0 <= j <= d <= self.depth:
            raise ValueError((d, j))
        for lev in range(d, j, -1):
            M, st = self.maps[lev - 1]
            P = [M[p] for p in P]
            strand = PM.compose_strand(strand, st)
        return P, strand

    def images(self, P, strand, d, j):
        """[(level, position list, strand)] for every level d, d-1, ..., j."""
        out = [(d, list(P), strand)]
        for lev in range(d, j, -1):
            P, strand = self.lift(P, strand, lev, lev - 1)
            out.append((lev - 1, P, strand))
        return out

    def seq(self, P, strand, level):
        return SM.extract(P, strand, self.strings[level])


def is_run(P):
    """True when the positions form one gap-free run without repeats (in either direction)."""
    if not P:
        return True
    s = set(P)
    return len(s) == len(P) and max(s) - min(s) + 1 == len(s)


def chunk_down(P, cs, ce, cstrand):
    """Chromosome position list -> list of (chromosome position, chunk position) for the bases inside [cs, ce)."""
    if cstrand == "-":
        return [(p, ce - 1 - p) for p in P if cs <= p < ce]
    return [(p, p - cs) for p in P if cs <= p < ce]


def chunk_string(genome, cs, ce, cstrand):
    return SM.revcomp(genome[cs:ce]) if cstrand == "-" else genome[cs:ce]


def selftest():
    # tests/minimal/location/test_single_interval.py::test_lift_over_to_first_ancestor_of_type
    #   2-4:- on a parent placed on its grandparent at 3-7:-   ->  3-5:+
    h = Hier(10, [(((3, 7),), "-")])
    assert h.lift(PM.positions(((2, 4),), "-"), "-", 1, 0) == ([3, 4], "+")
    #   2-4:+ ; parent on grandparent 0-5:- ; grandparent on great-grandparent 2-8:+   ->  3-5:-
    h = Hier(10, [(((2, 8),), "+"), (((0, 5),), "-")])
    assert h.lift([2, 3], "+", 2, 0) == ([4, 3], "-") and PM.positions(((3, 5),), "-") == [4, 3]
    #   2-4:- ; 0-5:+ ; 2-8:-   ->  4-6:+
    h = Hier(10, [(((2, 8),), "-"), (((0, 5),), "+")])
    assert h.lift(PM.positions(((2, 4),), "-"), "-", 2, 0) == ([4, 5], "+")
    #   [5-11, 10-20]:+ on a chunk placed at 3-100:+  ->  [8-14, 13-23]:+
    h = Hier(120, [(((3, 100),), "+")])
    assert h.lift(PM.positions(((5, 11), (10, 20)), "+"), "+", 1, 0)[0] == PM.positions(((8, 14), (13, 23)), "+")
    # test_lift_over_to_sequence: 1-2:+ on AAA placed at 2-5:- of TTTTT -> 3-4:-
    h = Hier("TTTTT", [(((2, 5),), "-")])
    assert h.strings[1] == "AAA" and h.lift([1], "+", 1, 0) == ([3], "-") and h.seq([3], "-", 0) == "A"
    # docs/source/vignettes.ipynb: slice chr1:60-90:+, transcript [5-9, 13-20]:- on the slice, exon 5-9:- -> chr1 65-69:-
    h = Hier(100, [(((60, 90),), "+")])
    assert h.lift(PM.positions(((5, 9),), "-"), "-", 1, 0) == (PM.positions(((65, 69),), "-"), "-")
    # tests/minimal/parent/test_parent.py::test_lift_child_location_discontiguous_to_parent_single_interval
    #   child [0-5, 10-15]:+ on a parent placed at 100-200:-  ->  [185-190, 195-200]:-
    h = Hier(300, [(((100, 200),), "-")])
    assert h.lift(PM.positions(((0, 5), (10, 15)), "+"), "+", 1, 0) == (PM.positions(((185, 190), (195, 200)), "-"), "-")
    #   child 6-8:- on a parent placed at 5-15:-  ->  7-9:+ ;  child 3-5:. on a parent placed at 10-20:-  ->  15-17:.
    h = Hier(30, [(((5, 15),), "-")])
    assert h.lift(PM.positions(((6, 8),), "-"), "-", 1, 0) == ([7, 8], "+")
    h = Hier(30, [(((10, 20),), "-")])
    assert sorted(h.lift([3, 4], ".", 1, 0)[0]) == [15, 16] and h.lift([3, 4], ".", 1, 0)[1] == "."
    # a level placed by a split location: model only (block order of the minus strand)
    h = Hier(20, [(((0, 5), (10, 15)), "-")])
    assert h.maps[0][0] == [14, 13, 12, 11, 10, 4, 3, 2, 1, 0]
    assert h.lift([3, 4, 5, 6], "+", 1, 0) == ([11, 10, 4, 3], "-")
    assert is_run([5, 4, 3]) and not is_run([5, 3]) and not is_run([3, 3]) and is_run([])
    assert chunk_down([2, 3, 8, 9], 3, 9, "+") == [(3, 0), (8, 5)] and chunk_down([2, 3, 8, 9], 3, 9, "-") == [(3, 5), (8, 0)]
    assert chunk_string("AACGT", 1, 4, "-") == "CGT" and chunk_string("AACGT", 1, 4, "+") == "ACG"
