"""Independent reader of one BED12 line (UCSC "BED detail" columns 1-12).  No BioCantor imports.

decode(text) -> (record or None, problems).  `problems` is a list of (invariant-name, message); the names are the
format's own invariants as the property lists them:
  fields12        exactly 12 tab-separated columns, one line, integer columns are decimal integers
  strand-symbol   column 6 is one of + - .
  block-count     blockCount == len(blockSizes) == len(blockStarts)   (a trailing comma is allowed, as UCSC writes it)
  first-start-0   blockStarts[0] == 0
  starts-ascending  blockStarts strictly ascending and no block runs into the next one
  span            blockStarts[-1] + blockSizes[-1] == end - start
  thick-inside    start <= thickStart <= thickEnd <= end
  coords          0 <= start <= end, block sizes >= 0
The record carries the decoded absolute blocks [(start + blockStarts[i], start + blockStarts[i] + blockSizes[i])].
"""
INT_COLS = {1: "start", 2: "end", 4: "score", 6: "thick_start", 7: "thick_end", 9: "block_count"}


def _ints(text):
    parts = text.split(",")
    if len(parts) > 1 and parts[-1] == "":
        parts = parts[:-1]
    return [int(p) for p in parts]


def decode(text):
    problems = []
    if "\n" in text or "\r" in text:
        problems.append(("fields12", "record spans more than one line"))
    cols = text.split("\t")
    if len(cols) != 12:
        return None, problems + [("fields12", f"{len(cols)} tab-separated columns")]
    rec = {"chrom": cols[0], "name": cols[3], "strand": cols[5]}
    try:
        for i, k in INT_COLS.items():
            rec[k] = int(cols[i])
        rec["rgb"] = tuple(_ints(cols[8]))
        rec["sizes"] = _ints(cols[10])
        rec["starts"] = _ints(cols[11])
    except ValueError as e:
        return None, problems + [("fields12", f"non-integer column: {e}")]
    if rec["strand"] not in ("+", "-", "."):
        problems.append(("strand-symbol", repr(rec["strand"])))
    if len(rec["rgb"]) not in (1, 3):
        problems.append(("fields12", f"itemRgb {cols[8]!r}"))
    s, e, sizes, starts = rec["start"], rec["end"], rec["sizes"], rec["starts"]
    if not (0 <= s <= e) or any(z < 0 for z in sizes):
        problems.append(("coords", f"start={s} end={e} sizes={sizes}"))
    if not (rec["block_count"] == len(sizes) == len(starts)):
        problems.append(("block-count", f"blockCount={rec['block_count']} sizes={len(sizes)} starts={len(starts)}"))
    if starts and starts[0] != 0:
        problems.append(("first-start-0", f"blockStarts[0]={starts[0]}"))
    n = min(len(sizes), len(starts))
    if any(starts[i] + sizes[i] > starts[i + 1] or starts[i] >= starts[i + 1] for i in range(n - 1)):
        problems.append(("starts-ascending", f"starts={starts} sizes={sizes}"))
    if n == 0 or starts[-1] + sizes[-1] != e - s:
        problems.append(("span", f"last start+size={(starts[-1] + sizes[-1]) if n else None} end-start={e - s}"))
    if not (s <= rec["thick_start"] <= rec["thick_end"] <= e):
        problems.append(("thick-inside", f"thick=[{rec['thick_start']},{rec['thick_end']}] record=[{s},{e}]"))
    rec["blocks"] = [(s + starts[i], s + starts[i] + sizes[i]) for i in range(n)]
    return rec, problems


def selftest():
    """Literal examples: the UCSC FAQ BED12 line, the three-block line pinned in tests/io/bed/test_bed.py, and one
    broken line per invariant."""
    ucsc = "chr22\t1000\t5000\tcloneA\t960\t+\t1000\t5000\t0\t2\t567,488,\t0,3512"
    r, p = decode(ucsc)
    assert p == [] and r["blocks"] == [(1000, 1567), (4512, 5000)] and r["name"] == "cloneA" and r["score"] == 960, (r, p)
    r, p = decode("None\t2\t15\tname\t0\t+\t4\t13\t0,0,0\t3\t4,3,3\t0,5,10")
    assert p == [] and r["blocks"] == [(2, 6), (7, 10), (12, 15)] and (r["thick_start"], r["thick_end"]) == (4, 13), (r, p)
    bad = {
        "fields12": "chr1\t2\t15\tname\t0\t+\t4\t13\t0,0,0\t3\t4,3,3",
        "strand-symbol": "chr1\t2\t15\tname\t0\tPLUS\t4\t13\t0,0,0\t3\t4,3,3\t0,5,10",
        "block-count": "chr1\t2\t15\tname\t0\t+\t4\t13\t0,0,0\t2\t4,3,3\t0,5,10",
        "first-start-0": "chr1\t2\t15\tname\t0\t+\t4\t13\t0,0,0\t3\t4,3,3\t-10,-5,10",
        "starts-ascending": "chr1\t2\t15\tname\t0\t+\t4\t13\t0,0,0\t3\t4,3,3\t0,10,10",
        "span": "chr1\t2\t16\tname\t0\t+\t4\t13\t0,0,0\t3\t4,3,3\t0,5,10",
        "thick-inside": "chr1\t2\t15\tname\t0\t+\t0\t0\t0,0,0\t3\t4,3,3\t0,5,10",
        "coords": "chr1\t-2\t11\tname\t0\t+\t4\t11\t0,0,0\t3\t4,3,3\t0,5,10",
    }
    for name, line in bad.items():
        _, p = decode(line)
        assert name in [k for k, _ in p], (name, p)
    _, p = decode("chr1\t2\t15\tname\t0\t+\tx\t13\t0,0,0\t3\t4,3,3\t0,5,10")
    assert p and p[0][0] == "fields12", p
