"""Sequence reference model: IUPAC complement from Biopython's data tables; extraction by position list."""
from Bio.Data import IUPACData

_COMP = dict(IUPACData.ambiguous_dna_complement)
_COMP["U"] = "A"
_COMP["-"] = "-"
COMP = dict(_COMP)
COMP.update({k.lower(): v.lower() for k, v in _COMP.items()})


def complement(ch):
    return COMP[ch]


def revcomp(s):
    return "".join(COMP[c] for c in reversed(s))


def extract(poslist, strand, genome):
    """Spliced, stranded sequence of a position list (already in 5'->3' order)."""
    if strand == "-":
        return "".join(COMP[genome[p]] for p in poslist)
    return "".join(genome[p] for p in poslist)


def selftest():
    assert revcomp("AACg") == "cGTT"
    assert extract([6, 5, 2], "-", "AAACCCGGG") == "CGT"
    assert extract([0, 1, 5], "+", "ACGTTGCA") == "ACG"
    assert COMP["K"] == "M" and COMP["b"] == "v" and COMP["U"] == "A"
