"""Independent reader of GFF3 text (Sequence Ontology GFF3 specification v1.26).  No BioCantor / gffutils imports.

parse(text) -> {"directives": [(lineno, text)], "rows": [row..], "fasta": [(id, seq)] | None, "problems": [(name, lineno, msg)]}
row = {"line", "seqid", "source", "type", "start", "end", "score", "strand", "phase", "attrs": {key: [values]}, "raw_attrs": str}
  keys and values percent-decoded (RFC 3986 escapes, UTF-8); a value is split on unescaped commas BEFORE decoding (spec:
  "multiple attributes of the same type are indicated by separating the values with the comma").
`problems` names the format's own invariants, as the property lists them:
  version-header  first line is '##gff-version 3...'
  columns9        a feature line has exactly nine tab-separated columns, no raw CR
  coords          columns 4/5 are decimal integers with 1 <= start <= end
  strand-symbol   column 7 is one of + - . ?
  phase           column 8 is 0/1/2 on CDS rows and '.' on every other row
  attr-syntax     column 9 is ';'-separated tag=value pairs: exactly one unescaped '=', non-empty tag and value, every '%'
                  starts a two-digit hex escape, no tag twice on a row
  unique-id       no ID value on two rows
  parent-earlier  every Parent value is the ID of a row on an earlier line
  sorted-by-start within one run of a seqid the start column never decreases
  fasta           after '##FASTA' only '>id' headers followed by sequence lines
"""
import re

_ESC = re.compile(r"(?:%[0-9A-Fa-f]{2})+")


def unescape(s):
    """Percent-decoding; returns (text, ok).  ok is False when a '%' is not followed by two hex digits."""
    ok = not re.search(r"%(?![0-9A-Fa-f]{2})", s)
    return _ESC.sub(lambda m: bytes.fromhex(m.group(0).replace("%", "")).decode("utf-8", "replace"), s), ok


def parse_attributes(col9):
    """-> (dict key -> list of decoded values, list of messages)"""
    attrs, msgs = {}, []
    if col9 in ("", "."):
        return attrs, msgs
    for pair in col9.split(";"):
        if pair.count("=") != 1:
            msgs.append(f"pair {pair!r} has {pair.count('=')} '='")
            continue
        k, v = pair.split("=")
        key, ok1 = unescape(k)
        vals = [unescape(p) for p in v.split(",")]
        if not k or not v:
            msgs.append(f"empty tag or value in {pair!r}")
        if not ok1 or not all(ok for _, ok in vals):
            msgs.append(f"stray '%' in {pair!r}")
        if key in attrs:
            msgs.append(f"tag {key!r} twice")
        attrs.setdefault(key, []).extend(t for t, _ in vals)
    return attrs, msgs


def parse(text):
    out = {"directives": [], "rows": [], "fasta": None, "problems": []}
    bad = out["problems"].append
    lines = text.split("\n")
    if lines and lines[-1] == "":
        lines.pop()
    if not lines or not re.match(r"##gff-version\s+3(\.\d+)*\s*$", lines[0]):
        bad(("version-header", 1, repr(lines[0][:40]) if lines else "empty file"))
    ids, last = set(), (None, 0)
    for n, line in enumerate(lines, 1):
        if out["fasta"] is not None:
            if line.startswith(">"):
                out["fasta"].append([line[1:].split()[0] if line[1:].split() else "", ""])
            elif out["fasta"] and re.fullmatch(r"[A-Za-z*\-.]*", line):
                out["fasta"][-1][1] += line
            else:
                bad(("fasta", n, repr(line[:40])))
            continue
        if line.startswith("##FASTA"):
            out["fasta"] = []
            continue
        if line.startswith("#"):
            out["directives"].append((n, line))
            continue
        if line == "":
            continue
        cols = line.split("\t")
        if len(cols) != 9 or "\r" in line:
            bad(("columns9", n, f"{len(cols)} columns" + (", raw CR" if "\r" in line else "")))
            continue
        row = dict(zip(("seqid", "source", "type", "start", "end", "score", "strand", "phase"), cols[:8]), line=n, raw_attrs=cols[8])
        if re.fullmatch(r"\d+", cols[3]) and re.fullmatch(r"\d+", cols[4]) and 1 <= int(cols[3]) <= int(cols[4]):
            row["start"], row["end"] = int(cols[3]), int(cols[4])
        else:
            bad(("coords", n, f"start={cols[3]!r} end={cols[4]!r}"))
            row["start"] = row["end"] = None
        if cols[6] not in ("+", "-", ".", "?"):
            bad(("strand-symbol", n, repr(cols[6])))
        if (cols[7] not in ("0", "1", "2")) if cols[2] == "CDS" else (cols[7] != "."):
            bad(("phase", n, f"type={cols[2]} phase={cols[7]!r}"))
        row["attrs"], msgs = parse_attributes(cols[8])
        for m in msgs:
            bad(("attr-syntax", n, m))
        for i in row["attrs"].get("ID", []):
            if i in ids:
                bad(("unique-id", n, i))
            ids.add(i)
        for p in row["attrs"].get("Parent", []):
            if p not in ids or p in row["attrs"].get("ID", []):
                bad(("parent-earlier", n, p))
        if row["start"] is not None:
            if last[0] == row["seqid"] and row["start"] < last[1]:
                bad(("sorted-by-start", n, f"{row['start']} after {last[1]}"))
            last = (row["seqid"], row["start"])
        out["rows"].append(row)
    if out["fasta"] is not None:
        out["fasta"] = [(i, s) for i, s in out["fasta"]]
    return out


def selftest():
    """The canonical gene of the GFF3 specification (EDEN, abridged), the spec's escaping rules, one broken file per invariant."""
    eden = ("##gff-version 3.1.26\n##sequence-region ctg123 1 1497228\n"
            "ctg123\t.\tgene\t1000\t9000\t.\t+\t.\tID=gene00001;Name=EDEN\n"
            "ctg123\t.\tmRNA\t1050\t9000\t.\t+\t.\tID=mRNA00001;Parent=gene00001;Name=EDEN.1\n"
            "ctg123\t.\texon\t1050\t1500\t.\t+\t.\tID=exon00002;Parent=mRNA00001,gene00001\n"
            "ctg123\t.\tCDS\t1201\t1500\t.\t+\t0\tID=cds00001;Parent=mRNA00001;Name=edenprotein.1;note=a%3Bb%2Cc,d%09%25%C3%A9\n"
            "##FASTA\n>ctg123 test\nACGT\nNNAC\n")
    r = parse(eden)
    assert r["problems"] == [], r["problems"]
    assert [(x["type"], x["start"], x["end"], x["strand"], x["phase"]) for x in r["rows"]] == [
        ("gene", 1000, 9000, "+", "."), ("mRNA", 1050, 9000, "+", "."), ("exon", 1050, 1500, "+", "."), ("CDS", 1201, 1500, "+", "0")]
    assert r["rows"][2]["attrs"]["Parent"] == ["mRNA00001", "gene00001"]
    assert r["rows"][3]["attrs"]["note"] == ["a;b,c", "d\t%é"], r["rows"][3]["attrs"]
    assert r["fasta"] == [("ctg123", "ACGTNNAC")] and r["directives"][1][1].split() == ["##sequence-region", "ctg123", "1", "1497228"]
    assert unescape("%3E%20x%zz") == ("> x%zz", False)
    g = "c\t.\tgene\t1\t9\t.\t+\t.\tID=g\n"
    broken = {
        "version-header": "#gff\n" + g,
        "columns9": "##gff-version 3\nc\t.\tgene\t1\t9\t.\t+\t.\tID=g\textra\n",
        "coords": "##gff-version 3\nc\t.\tgene\t0\t9\t.\t+\t.\tID=g\n",
        "strand-symbol": "##gff-version 3\nc\t.\tgene\t1\t9\t.\tPLUS\t.\tID=g\n",
        "phase": "##gff-version 3\n" + g + "c\t.\tCDS\t1\t9\t.\t+\t.\tID=c;Parent=g\n",
        "attr-syntax": "##gff-version 3\nc\t.\tgene\t1\t9\t.\t+\t.\tID=g;k=a=b\n",
        "unique-id": "##gff-version 3\n" + g + g,
        "parent-earlier": "##gff-version 3\nc\t.\tmRNA\t1\t9\t.\t+\t.\tID=t;Parent=g\n" + g,
        "sorted-by-start": "##gff-version 3\nc\t.\tgene\t5\t9\t.\t+\t.\tID=h\n" + g,
        "fasta": "##gff-version 3\n" + g + "##FASTA\n>c\nAC GT 12\n",
    }
    for name, txt in broken.items():
        assert name in [p[0] for p in parse(txt)["problems"]], (name, parse(txt)["problems"])
    for txt in ("##gff-version 3\nc\t.\texon\t1\t9\t.\t+\t0\tID=e\n", "##gff-version 3\nc\t.\tgene\t1\t9\t.\t+\t.\tID=g;ID=h\n",
                "##gff-version 3\nc\t.\tgene\t1\t9\t.\t+\t.\tID=g;k=5%\n", "##gff-version 3\nc\t.\tgene\t9\t1\t.\t+\t.\tID=g\n"):
        assert parse(txt)["problems"], txt
